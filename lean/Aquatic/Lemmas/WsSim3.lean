/- Simulation of the WebTorrent store model by the reference tracker: the cleaning pass. -/
import Aquatic.Lemmas.WsSim2

namespace Aquatic.Ws

open Aquatic

def cleanPeer (now : Nat) (p : WPeer) : WPeer := { p with expecting := IMap.retain (fun vu => validAt vu now) p.expecting }

def cleanedPeers (now : Nat) (ps : Peers) : Peers :=
  (IMap.retain (fun p => validAt p.validUntil now) ps).map (fun e => (e.1, cleanPeer now e.2))

def expired (now : Nat) (ps : Peers) : Peers := ps.filter (fun e => !validAt e.2.validUntil now)

theorem seedCount_cons (e : Nat × WPeer) (t : Peers) : seedCount (e :: t) = (if e.2.seeder then 1 else 0) + seedCount t := by
  simp only [seedCount, List.countP_cons]; split <;> omega

theorem cleanPeers_spec (now : Nat) : ∀ (ps : Peers) (ns : Nat), seedCount ps ≤ ns →
    cleanPeers now ps ns = .ok (cleanedPeers now ps, ns - seedCount (expired now ps))
  | [], ns, _ => by simp [cleanPeers, cleanedPeers, expired, seedCount, IMap.retain]
  | (pid, p) :: t, ns, h => by
    rw [seedCount_cons] at h
    by_cases hv : validAt p.validUntil now = true
    · have ih := cleanPeers_spec now t ns (by omega)
      have e1 : cleanedPeers now ((pid, p) :: t) = (pid, cleanPeer now p) :: cleanedPeers now t := by
        simp [cleanedPeers, IMap.retain, hv]
      have e2 : expired now ((pid, p) :: t) = expired now t := by simp [expired, hv]
      simp only [cleanPeers, hv, if_true, ih, bind, Except.bind, pure, Except.pure, e1, e2]
      rfl
    · have hv' : validAt p.validUntil now = false := by simpa using hv
      have e1 : cleanedPeers now ((pid, p) :: t) = cleanedPeers now t := by simp [cleanedPeers, IMap.retain, hv']
      have e2 : expired now ((pid, p) :: t) = (pid, p) :: expired now t := by simp [expired, hv']
      cases hs : p.seeder
      · simp only [hs] at h
        have ih := cleanPeers_spec now t ns (by simpa using h)
        simp only [cleanPeers, hv', decSeeder, hs, bind, Except.bind, e1, e2, seedCount_cons]
        simpa using ih
      · simp only [hs, if_true] at h
        have ih := cleanPeers_spec now t (ns - 1) (by omega)
        have hc : csub ns 1 = .ok (ns - 1) := by simp [csub]; omega
        simp only [cleanPeers, hv', decSeeder, hs, if_true, hc, bind, Except.bind, ih, e1, e2, seedCount_cons]
        simp only [Bool.false_eq_true, if_false, if_true]
        congr 2
        omega

theorem get_cleanedPeers (now : Nat) {ps : Peers} (hn : (IMap.keys ps).Nodup) (pid : Nat) :
    IMap.get (cleanedPeers now ps) pid =
      ((IMap.get ps pid).filter (fun p => validAt p.validUntil now)).map (cleanPeer now) := by
  unfold cleanedPeers
  rw [get_map_val (IMap.retain (fun p => validAt p.validUntil now) ps) (fun _ p => cleanPeer now p) pid,
    IMap.get_retain _ _ hn]

theorem keys_cleanedPeers_sublist (now : Nat) (ps : Peers) : (IMap.keys (cleanedPeers now ps)).Sublist (IMap.keys ps) := by
  have : IMap.keys (cleanedPeers now ps) = IMap.keys (IMap.retain (fun p => validAt p.validUntil now) ps) := by
    simp [cleanedPeers, IMap.keys, List.map_map, Function.comp]
  rw [this]
  exact (List.filter_sublist).map _

theorem seedCount_cleanedPeers (now : Nat) (ps : Peers) :
    seedCount (cleanedPeers now ps) + seedCount (expired now ps) = seedCount ps := by
  induction ps with
  | nil => rfl
  | cons e t ih =>
    obtain ⟨pid, p⟩ := e
    by_cases hv : validAt p.validUntil now = true
    · have e1 : cleanedPeers now ((pid, p) :: t) = (pid, cleanPeer now p) :: cleanedPeers now t := by
        simp [cleanedPeers, IMap.retain, hv]
      have e2 : expired now ((pid, p) :: t) = expired now t := by simp [expired, hv]
      rw [e1, e2, seedCount_cons, seedCount_cons]
      have : (cleanPeer now p).seeder = p.seeder := rfl
      simp only [this]
      omega
    · have hv' : validAt p.validUntil now = false := by simpa using hv
      have e1 : cleanedPeers now ((pid, p) :: t) = cleanedPeers now t := by simp [cleanedPeers, IMap.retain, hv']
      have e2 : expired now ((pid, p) :: t) = (pid, p) :: expired now t := by simp [expired, hv']
      rw [e1, e2, seedCount_cons, seedCount_cons]
      omega

theorem tinv_cleaned (now : Nat) {t : Torrent} (ht : TInv t) :
    TInv ⟨cleanedPeers now t.peers, t.numSeeders - seedCount (expired now t.peers)⟩ := by
  refine ⟨(keys_cleanedPeers_sublist now t.peers).nodup ht.nodup, ?_, ?_⟩
  · have := seedCount_cleanedPeers now t.peers
    simp only [ht.count]; omega
  · intro pid p hg
    rw [get_cleanedPeers now ht.nodup] at hg
    cases hp : IMap.get t.peers pid with
    | none => simp [hp] at hg
    | some q =>
      simp only [hp, Option.filter] at hg
      split at hg
      · simp at hg; subst hg
        exact IMap.nodup_retain (fun vu => validAt vu now) (ht.expNodup pid q hp)
      · simp at hg

theorem minv_cons {k : Nat} {t : Torrent} {rest : WMap} (hm : MInv ((k, t) :: rest)) :
    TInv t ∧ MInv rest ∧ k ∉ IMap.keys rest := by
  have hn := hm.nodup
  simp only [IMap.keys_cons, List.nodup_cons] at hn
  refine ⟨hm.tinv k t (by simp [IMap.get]), ⟨hn.2, ?_⟩, hn.1⟩
  intro h' t' hg
  apply hm.tinv h' t'
  have : k ≠ h' := by
    intro e; subst e
    exact hn.1 (IMap.get_isSome.mp (by simp [hg]))
  simp [IMap.get, this, hg]

theorem torrentAt_cons (k : Nat) (t : Torrent) (rest : WMap) (h : Nat) :
    torrentAt ((k, t) :: rest) h = if k = h then t else torrentAt rest h := by
  unfold torrentAt
  by_cases e : k = h <;> simp [IMap.get, e]

theorem torrentAt_of_not_mem {m : WMap} {h : Nat} (hn : h ∉ IMap.keys m) : torrentAt m h = {} :=
  get_none_torrentAt (IMap.get_eq_none.mpr hn)

theorem clean_spec (now : Nat) (allowed : Nat → Bool) : ∀ (m : WMap), MInv m →
    ∃ m', clean m now allowed = .ok m' ∧ MInv m' ∧ (IMap.keys m').Sublist (IMap.keys m) ∧
      ∀ h pid, peerAt m' h pid =
        if allowed h then ((peerAt m h pid).filter (fun p => validAt p.validUntil now)).map (cleanPeer now) else none
  | [], _ => ⟨[], rfl, ⟨by simp [IMap.keys], by intro h t hg; simp [IMap.get] at hg⟩, List.Sublist.refl _,
      by intro h pid; simp [peerAt, torrentAt, IMap.get]⟩
  | (k, t) :: rest, hm => by
    obtain ⟨ht, hrest, hk⟩ := minv_cons hm
    obtain ⟨rest', hc, hm', hsub, hp⟩ := clean_spec now allowed rest hrest
    have hk' : k ∉ IMap.keys rest' := fun x => hk (hsub.subset x)
    have hother : ∀ h pid, h ≠ k → peerAt ((k, t) :: rest) h pid = peerAt rest h pid := by
      intro h pid hne
      simp [peerAt, torrentAt_cons, Ne.symm hne]
    have hself : ∀ pid, peerAt ((k, t) :: rest) k pid = IMap.get t.peers pid := by
      intro pid; simp [peerAt, torrentAt_cons]
    by_cases ha : allowed k = true
    · have hcp := cleanPeers_spec now t.peers t.numSeeders (by rw [ht.count]; exact Nat.le_refl _)
      by_cases hempty : (cleanedPeers now t.peers).isEmpty = true
      · refine ⟨rest', ?_, hm', hsub.trans (List.sublist_cons_self _ _), ?_⟩
        · simp [clean, ha, hcp, hc, hempty, bind, Except.bind, pure, Except.pure]
        · intro h pid
          by_cases e : h = k
          · subst e
            rw [hself, ← get_cleanedPeers now ht.nodup, ha]
            have : cleanedPeers now t.peers = [] := List.isEmpty_iff.mp hempty
            simp [this, IMap.get, peerAt, torrentAt_of_not_mem hk']
          · rw [hother h pid e]; exact hp h pid
      · have hmk : MInv ((k, ⟨cleanedPeers now t.peers, t.numSeeders - seedCount (expired now t.peers)⟩) :: rest') := by
          refine ⟨by simp only [IMap.keys_cons, List.nodup_cons]; exact ⟨hk', hm'.nodup⟩, ?_⟩
          intro h' t' hg
          by_cases e : k = h'
          · simp [IMap.get, e] at hg; subst hg; exact tinv_cleaned now ht
          · simp [IMap.get, e] at hg; exact hm'.tinv h' t' hg
        refine ⟨_, ?_, hmk, ?_, ?_⟩
        · simp [clean, ha, hcp, hc, hempty, bind, Except.bind, pure, Except.pure]
        · simp only [IMap.keys_cons]; exact hsub.cons_cons k
        · intro h pid
          by_cases e : h = k
          · subst e
            rw [hself, ← get_cleanedPeers now ht.nodup, ha]
            simp [peerAt, torrentAt_cons]
          · rw [hother h pid e]
            have : peerAt ((k, ⟨cleanedPeers now t.peers, t.numSeeders - seedCount (expired now t.peers)⟩) :: rest') h pid =
                peerAt rest' h pid := by simp [peerAt, torrentAt_cons, Ne.symm e]
            rw [this]; exact hp h pid
    · have ha' : allowed k = false := by simpa using ha
      refine ⟨rest', ?_, hm', hsub.trans (List.sublist_cons_self _ _), ?_⟩
      · simp [clean, ha', hc]
      · intro h pid
        by_cases e : h = k
        · subst e
          simp [ha', peerAt, torrentAt_of_not_mem hk', IMap.get]
        · rw [hother h pid e]; exact hp h pid

theorem clean_sim {m : WMap} {r : RefW} (hs : WSim m r) (now : Nat) (allowed : Nat → Bool) :
    ∃ m', clean m now allowed = .ok m' ∧ WSim m' (Ref.clean r now allowed) := by
  obtain ⟨m', hc, hm', _, hp⟩ := clean_spec now allowed m hs.inv
  refine ⟨m', hc, hm', Ref.nodup_filter _ hs.nodup, ?_⟩
  intro h
  have hA := hs.agree h
  have ht := tinv_torrentAt hs.inv h
  have key : ∀ pid, IMap.get (torrentAt m' h).peers pid =
      if allowed h then ((IMap.get (torrentAt m h).peers pid).filter (fun p => validAt p.validUntil now)).map (cleanPeer now)
      else none := fun pid => hp h pid
  constructor
  · intro pid
    simp only [Ref.clean]
    rw [Ref.find_filter _ hs.nodup, ← hA.ent, key]
    obtain ⟨x, hg⟩ : ∃ x, IMap.get (torrentAt m h).peers pid = x := ⟨_, rfl⟩
    rw [hg]
    cases x with
    | none => cases allowed h <;> rfl
    | some p =>
      cases hal : allowed h <;> cases hv : validAt p.validUntil now <;>
        simp [Option.filter, toRW, Ref.keep, hal, hv, cleanPeer]
  · intro pid k
    simp only [Ref.clean]
    rw [key, ← hA.ent, ← hA.exp]
    obtain ⟨x, hg⟩ : ∃ x, IMap.get (torrentAt m h).peers pid = x := ⟨_, rfl⟩
    rw [hg]
    cases x with
    | none => cases allowed h <;> rfl
    | some p =>
      have hne := ht.expNodup pid p hg
      cases hal : allowed h <;> cases hv : validAt p.validUntil now <;>
        simp [Option.filter, toRW, Ref.keep, hal, hv, cleanPeer, IMap.get_retain _ _ hne]

end Aquatic.Ws
