/- Lemmas for C20: the per-peer-id tally, the announce / clean messages, export lines. -/
import Aquatic.Model.Stats
import Aquatic.Lemmas.IMap
import Aquatic.Lemmas.Count

namespace Aquatic.Stats

open Aquatic

/-! ### the tally as a function -/

def TallyIs (t : Tally) (cnt : Nat → Nat) : Prop :=
  (IMap.keys t).Nodup ∧ ∀ id, IMap.get t id = if cnt id = 0 then none else some (cnt id)

theorem tallyIs_nil : TallyIs [] (fun _ => 0) := ⟨by simp [IMap.keys], by intro id; simp [IMap.get]⟩

theorem tallyIs_congr {t : Tally} {c1 c2 : Nat → Nat} (h : TallyIs t c1) (he : ∀ id, c1 id = c2 id) : TallyIs t c2 := by
  have : c1 = c2 := funext he
  rw [← this]; exact h

theorem tally_added {t : Tally} {cnt : Nat → Nat} (h : TallyIs t cnt) (id : Nat) :
    TallyIs (tallyStep t (.added id)) (fun x => cnt x + if x = id then 1 else 0) := by
  refine ⟨IMap.nodup_insert _ _ h.1, ?_⟩
  intro x
  simp only [tallyStep]
  rw [IMap.get_insert]
  by_cases e : id = x
  · subst e
    rw [h.2 id]
    by_cases c : cnt id = 0 <;> simp [c]
  · have : ¬ x = id := fun a => e a.symm
    simp only [e, this, if_false, Nat.add_zero]
    exact h.2 x

theorem tally_removed {t : Tally} {cnt : Nat → Nat} (h : TallyIs t cnt) (id : Nat) (hp : 1 ≤ cnt id) :
    TallyIs (tallyStep t (.removed id)) (fun x => cnt x - if x = id then 1 else 0) := by
  have hg : IMap.get t id = some (cnt id) := by rw [h.2 id]; simp; omega
  simp only [tallyStep, hg]
  by_cases c1 : cnt id - 1 = 0
  · rw [if_pos c1]
    refine ⟨IMap.nodup_swapRemove _ h.1, ?_⟩
    intro x
    rw [IMap.get_swapRemove _ _ h.1]
    by_cases e : x = id
    · subst e; simp [c1]
    · simp only [e, if_false, Nat.sub_zero]; exact h.2 x
  · rw [if_neg c1]
    refine ⟨IMap.nodup_insert _ _ h.1, ?_⟩
    intro x
    rw [IMap.get_insert]
    by_cases e : id = x
    · subst e; simp [c1]
    · have : ¬ x = id := fun a => e a.symm
      simp only [e, this, if_false, Nat.sub_zero]; exact h.2 x

theorem tally_removed_list : ∀ (ids : List Nat) {t : Tally} {cnt : Nat → Nat}, TallyIs t cnt →
    (∀ id, ids.count id ≤ cnt id) → TallyIs (tallyRun t (ids.map StatMsg.removed)) (fun x => cnt x - ids.count x)
  | [], t, cnt, h, _ => by simpa [tallyRun] using h
  | a :: rest, t, cnt, h, hle => by
    have h1 : 1 ≤ cnt a := by have := hle a; simp at this; omega
    have hstep := tally_removed h a h1
    have hle' : ∀ id, rest.count id ≤ (fun x => cnt x - if x = a then 1 else 0) id := by
      intro id
      have := hle id
      simp only [List.count_cons] at this
      by_cases e : id = a
      · subst e; simp at this ⊢; omega
      · have e' : ¬ a = id := fun x => e x.symm
        simp [e, e'] at this ⊢; exact this
    have := tally_removed_list rest hstep hle'
    simp only [tallyRun, List.map_cons, List.foldl_cons] at this ⊢
    refine tallyIs_congr this ?_
    intro id
    simp only [List.count_cons]
    by_cases e : id = a
    · subst e; simp; omega
    · have e' : ¬ a = id := fun x => e x.symm
      simp [e, e']

/-! ### stored peers per id, in the reference -/

def idCount (r : RState) (id : Nat) : Nat := r.countP (fun e => decide (e.peer.peerId = id))

def prevE (r : RState) (h : Nat) (k : Key) : Option REntry := r.find? (fun e => decide (e.hash = h) && decide (e.key = k))

theorem lookup_proj (r : RState) (h : Nat) (k : Key) : lookup (proj r h) k = (prevE r h k).map (·.peer) := by
  induction r with
  | nil => rfl
  | cons e t ih =>
    rw [proj_cons]
    by_cases c1 : e.hash = h
    · by_cases c2 : e.key = k
      · simp [c1, c2, lookup, prevE]
      · simp only [c1, if_true]
        simp only [prevE, List.find?_cons, c1, c2, decide_true, decide_false, Bool.and_false]
        simp only [lookup, List.find?_cons, c2, decide_false]
        exact ih
    · simp only [c1, if_false, prevE, List.find?_cons, decide_false, Bool.false_and]
      exact ih

theorem mem_of_lookup {l : Entries} {k : Key} {p : Peer} (h : lookup l k = some p) : (k, p) ∈ l := by
  unfold lookup at h
  cases hf : l.find? (fun e => e.1 = k) with
  | none => simp [hf] at h
  | some e =>
    simp [hf] at h
    have := List.find?_some hf
    have hm := List.mem_of_find?_eq_some hf
    simp at this
    obtain ⟨k', p'⟩ := e
    simp at this h
    subst this h
    exact hm

theorem lookup_of_mem {l : Entries} {k : Key} {p : Peer} (hn : (keysOf l).Nodup) (h : (k, p) ∈ l) : lookup l k = some p := by
  induction l with
  | nil => cases h
  | cons e t ih =>
    obtain ⟨k', p'⟩ := e
    simp only [keysOf_cons, List.nodup_cons] at hn
    rcases List.mem_cons.mp h with e' | e'
    · cases e'; simp [lookup]
    · have : k' ≠ k := by
        intro hk; subst hk
        exact hn.1 (mem_keysOf.mpr ⟨p, e'⟩)
      have := ih hn.2 e'
      simp only [lookup, List.find?_cons, this] at this ⊢
      simp [*]

theorem lookup_perm {a b : Entries} (hp : a.Perm b) (hn : (keysOf b).Nodup) (k : Key) : lookup a k = lookup b k := by
  have hna : (keysOf a).Nodup := (hp.map _).nodup_iff.mpr hn
  cases hb : lookup b k with
  | none =>
    cases ha : lookup a k with
    | none => rfl
    | some p =>
      have := lookup_of_mem hn (hp.mem_iff.mp (mem_of_lookup ha))
      rw [hb] at this; cases this
  | some p => exact lookup_of_mem hna (hp.mem_iff.mpr (mem_of_lookup hb))

theorem keysOf_proj_nodup {c : Nat} {m : TMap} {r : RState} (hs : Sim1 c m r) (h : Nat) : (keysOf (proj r h)).Nodup := by
  have hp := hs.2 h
  have hn : (keysOf (m.entriesOf h)).Nodup := by
    unfold TMap.entriesOf
    cases hg : m.get h with
    | none => simp [keysOf]
    | some pm =>
      have := hs.1.2 (h, pm) (TMap.mem_of_get hg)
      cases pm with
      | small l => exact this.1
      | large l ns => exact this.1
  exact (hp.map _).nodup_iff.mp hn

/-- removing the (unique) entry of `(h, k)` lowers the count of its id by one -/
theorem idCount_rest (r : RState) (h : Nat) (k : Key) (hn : (keysOf (proj r h)).Nodup) (id : Nat) :
    idCount r id = idCount (r.filter (fun e => ¬ (e.hash = h ∧ e.key = k))) id +
      (match prevE r h k with | some e => if e.peer.peerId = id then 1 else 0 | none => 0) := by
  induction r with
  | nil => rfl
  | cons e t ih =>
    rw [proj_cons] at hn
    by_cases c1 : e.hash = h
    · simp only [c1, if_true, keysOf_cons, List.nodup_cons] at hn
      by_cases c2 : e.key = k
      · -- this is the entry; no other entry of (h, k) follows
        have hnone : prevE t h k = none := by
          cases hp : prevE t h k with
          | none => rfl
          | some e' =>
            exfalso
            have := lookup_proj t h k
            rw [hp] at this
            have hm := mem_of_lookup this
            rw [← c2] at hm
            exact hn.1 (mem_keysOf.mpr ⟨_, hm⟩)
        have ih' := ih hn.2
        rw [hnone] at ih'
        simp only [prevE, List.find?_cons, c1, c2, decide_true, Bool.and_self]
        simp only [idCount, List.countP_cons, List.filter_cons, c1, c2, and_self, not_true_eq_false, decide_false]
        simp only [idCount] at ih'
        by_cases c3 : e.peer.peerId = id <;> simp [c3] at ih' ⊢ <;> omega
      · have ih' := ih hn.2
        have hp : prevE (e :: t) h k = prevE t h k := by simp [prevE, List.find?_cons, c1, c2]
        rw [hp]
        simp only [idCount, List.countP_cons, List.filter_cons, c1, c2, and_false, not_false_eq_true, decide_true, if_true]
        simp only [idCount] at ih'
        omega
    · simp only [c1, if_false] at hn
      have ih' := ih hn
      have hp : prevE (e :: t) h k = prevE t h k := by simp [prevE, List.find?_cons, c1]
      rw [hp]
      simp only [idCount, List.countP_cons, List.filter_cons, c1, false_and, not_false_eq_true, decide_true, if_true]
      simp only [idCount] at ih'
      omega

end Aquatic.Stats

namespace Aquatic.Stats

open Aquatic

/-! ### announce: messages against the change of the stored ids -/

theorem idCount_append (a b : RState) (id : Nat) : idCount (a ++ b) id = idCount a id + idCount b id := by
  simp [idCount, List.countP_append]

theorem prevE_mem {r : RState} {h : Nat} {k : Key} {e : REntry} (hp : prevE r h k = some e) : e ∈ r :=
  List.mem_of_find?_eq_some hp

theorem idCount_pos_of_mem {r : RState} {e : REntry} (he : e ∈ r) : 1 ≤ idCount r e.peer.peerId := by
  unfold idCount
  exact List.countP_pos_iff.mpr ⟨e, he, by simp⟩

theorem tally_announce (t : Tally) (r : RState) (other : Nat → Nat) (h : Nat) (k : Key) (st : Status) (pid dl : Nat)
    (hn : (keysOf (proj r h)).Nodup) (ht : TallyIs t (fun id => idCount r id + other id)) :
    TallyIs (tallyRun t (annMsgs st pid ((prevE r h k).map (·.peer))))
      (fun id => idCount (Ref.announce r h k st pid dl).1 id + other id) := by
  have hrest := idCount_rest r h k hn
  cases hp : prevE r h k with
  | none =>
    simp only [hp] at hrest
    cases st with
    | stopped =>
      simp only [annMsgs, Option.map_none, tallyRun, List.foldl_nil, Ref.announce]
      exact tallyIs_congr ht (fun id => by rw [hrest id]; simp)
    | seeding =>
      simp only [annMsgs, Option.map_none, tallyRun, List.foldl_cons, List.foldl_nil, Ref.announce]
      refine tallyIs_congr (tally_added ht pid) (fun id => ?_)
      rw [idCount_append, hrest id]
      simp only [idCount, List.countP_cons, List.countP_nil]
      by_cases e : id = pid <;> simp [e, eq_comm] <;> try omega
    | leeching =>
      simp only [annMsgs, Option.map_none, tallyRun, List.foldl_cons, List.foldl_nil, Ref.announce]
      refine tallyIs_congr (tally_added ht pid) (fun id => ?_)
      rw [idCount_append, hrest id]
      simp only [idCount, List.countP_cons, List.countP_nil]
      by_cases e : id = pid <;> simp [e, eq_comm] <;> try omega
  | some old =>
    simp only [hp] at hrest
    have hpos : 1 ≤ idCount r old.peer.peerId + other old.peer.peerId := by
      have := idCount_pos_of_mem (prevE_mem hp); omega
    have hrem := tally_removed ht old.peer.peerId hpos
    have hcnt : ∀ id, (idCount r id + other id) - (if id = old.peer.peerId then 1 else 0) =
        idCount (r.filter (fun e => ¬ (e.hash = h ∧ e.key = k))) id + other id := by
      intro id
      rw [hrest id]
      by_cases e : old.peer.peerId = id
      · simp [e]
      · have : ¬ id = old.peer.peerId := fun x => e x.symm
        simp [e, this]
    cases st with
    | stopped =>
      simp only [annMsgs, Option.map_some, tallyRun, List.foldl_cons, List.foldl_nil, Ref.announce]
      exact tallyIs_congr hrem hcnt
    | seeding =>
      simp only [annMsgs, Option.map_some, Ref.announce]
      by_cases c : old.peer.peerId = pid
      · rw [if_pos c]
        simp only [tallyRun, List.foldl_nil]
        refine tallyIs_congr ht (fun id => ?_)
        rw [idCount_append, hrest id, c]
        simp only [idCount, List.countP_cons, List.countP_nil]
        by_cases e : pid = id <;> simp [e] <;> try omega
      · rw [if_neg c]
        simp only [tallyRun, List.foldl_cons, List.foldl_nil]
        refine tallyIs_congr (tally_added (tallyIs_congr hrem hcnt) pid) (fun id => ?_)
        rw [idCount_append]
        simp only [idCount, List.countP_cons, List.countP_nil]
        by_cases e : id = pid <;> simp [e, eq_comm] <;> try omega
    | leeching =>
      simp only [annMsgs, Option.map_some, Ref.announce]
      by_cases c : old.peer.peerId = pid
      · rw [if_pos c]
        simp only [tallyRun, List.foldl_nil]
        refine tallyIs_congr ht (fun id => ?_)
        rw [idCount_append, hrest id, c]
        simp only [idCount, List.countP_cons, List.countP_nil]
        by_cases e : pid = id <;> simp [e] <;> try omega
      · rw [if_neg c]
        simp only [tallyRun, List.foldl_cons, List.foldl_nil]
        refine tallyIs_congr (tally_added (tallyIs_congr hrem hcnt) pid) (fun id => ?_)
        rw [idCount_append]
        simp only [idCount, List.countP_cons, List.countP_nil]
        by_cases e : id = pid <;> simp [e, eq_comm] <;> try omega

/-! ### clean: what is reported -/

def removedOf (now : Nat) (m : TMap) : List Nat :=
  m.flatMap (fun x => (x.2.entries.filter (fun e => !validE now e)).map (·.2.peerId))

def lineOf (now : Nat) (x : Nat × PeerMap) : Option (Nat × Nat × Nat) :=
  let live := x.2.entries.filter (validE now)
  if live.length ≠ 0 then some (x.1, numSeeders live, live.length - numSeeders live) else none

def linesOf (now : Nat) (m : TMap) : List (Nat × Nat × Nat) := m.filterMap (lineOf now)

theorem cleanUdp_reports (c : Nat) (m : TMap) (now : Nat) (allowed : Nat → Bool) (hinv : TMap.Inv c m) :
    ∀ m' out, m.cleanUdp c now allowed = .ok (m', out) → out.removed = removedOf now m ∧ out.lines = linesOf now m := by
  induction m with
  | nil => intro m' out h; simp [TMap.cleanUdp] at h; obtain ⟨_, h2⟩ := h; subst h2; exact ⟨rfl, rfl⟩
  | cons x t ih =>
    obtain ⟨h, pm⟩ := x
    intro m' out hc
    obtain ⟨t', out', hrest, _⟩ := TMap.cleanUdp_spec c t now allowed (TMap.inv_tail hinv)
    obtain ⟨pm', hclean, hpm', hent⟩ := clean_spec c true pm now (hinv.2 _ List.mem_cons_self)
    obtain ⟨ih1, ih2⟩ := ih (TMap.inv_tail hinv) t' out' hrest
    have hle : numSeeders (pm.entries.filter (validE now)) ≤ pm'.entries.length := by
      rw [hent]; exact numSeeders_le_length _
    simp only [TMap.cleanUdp, hclean, hrest, csub_ok hle, bind, Except.bind, pure, Except.pure] at hc
    injection hc with hc
    injection hc with _ hc
    subst hc
    simp only [removedOf, linesOf, List.flatMap_cons, List.filterMap_cons, lineOf] at ih1 ih2 ⊢
    refine ⟨by rw [ih1], ?_⟩
    rw [ih2, hent]
    have hl := numSeeders_le_length (pm.entries.filter (validE now))
    have hnp : numSeeders (List.filter (validE now) pm.entries) + ((List.filter (validE now) pm.entries).length - numSeeders (List.filter (validE now) pm.entries)) = (List.filter (validE now) pm.entries).length := by omega
    rw [hnp]
    by_cases c0 : (pm.entries.filter (validE now)).length = 0
    · simp [c0]
    · simp [c0]

theorem countP_filter_split {α : Type} (l : List α) (p q : α → Bool) :
    (l.filter (fun a => !q a)).countP p + (l.filter q).countP p = l.countP p := by
  induction l with
  | nil => rfl
  | cons a t ih =>
    by_cases hq : q a = true <;> by_cases hp : p a = true <;>
      simp [List.filter_cons, List.countP_cons, hq, hp] <;> omega

/-- the removed ids and the surviving entries account for every stored id -/
theorem removed_count (now : Nat) (id : Nat) (m : TMap) : ∀ (r : RState), m.hashes.Nodup → Agree m r →
    (removedOf now m).count id + idCount (Ref.clean r now (fun _ => true)) id = idCount r id := by
  induction m with
  | nil =>
    intro r _ ha
    have : ∀ h, proj r h = [] := fun h => by
      have := (ha h).length_eq
      simp only [TMap.entriesOf_nil, List.length_nil] at this
      exact List.length_eq_zero_iff.mp this.symm
    cases r with
    | nil => rfl
    | cons e t =>
      have := this e.hash
      simp [proj_cons] at this
  | cons x t ih =>
    obtain ⟨h, pm⟩ := x
    intro r hnd ha
    simp only [TMap.hashes, List.map_cons, List.nodup_cons] at hnd
    have hat := agree_tail hnd.1 ha
    have iht := ih _ hnd.2 hat
    have hperm : pm.entries.Perm (proj r h) := by
      have := ha h
      rw [TMap.entriesOf_cons] at this
      simpa using this
    -- split the reference by torrent
    have hsplit : ∀ (s : RState), idCount s id = idCount (s.filter (fun e => decide (e.hash = h))) id +
        idCount (s.filter (fun e => !decide (e.hash = h))) id := by
      intro s
      simp only [idCount, List.countP_filter]
      induction s with
      | nil => rfl
      | cons a s ihs => by_cases c1 : a.hash = h <;> by_cases c2 : a.peer.peerId = id <;> simp [List.countP_cons, c1, c2, ihs] <;> omega
    have h4 : Ref.clean (r.filter (fun e => !decide (e.hash = h))) now (fun _ => true) =
        (Ref.clean r now (fun _ => true)).filter (fun e => !decide (e.hash = h)) := by
      simp only [Ref.clean, List.filter_filter]
      congr 1; funext a; simp [Bool.and_comm]
    -- this torrent
    have hthis : ((pm.entries.filter (fun e => !validE now e)).map (·.2.peerId)).count id +
        idCount ((Ref.clean r now (fun _ => true)).filter (fun e => decide (e.hash = h))) id =
        idCount (r.filter (fun e => decide (e.hash = h))) id := by
      have e1 : idCount (r.filter (fun e => decide (e.hash = h))) id = (proj r h).countP (fun e => decide (e.2.peerId = id)) := by
        unfold idCount proj; rw [List.countP_map]; rfl
      have e2 : idCount ((Ref.clean r now (fun _ => true)).filter (fun e => decide (e.hash = h))) id =
          ((proj r h).filter (validE now)).countP (fun e => decide (e.2.peerId = id)) := by
        have := proj_clean r now (fun _ => true) h
        simp only [if_true] at this
        rw [← this]
        unfold idCount proj; rw [List.countP_map]; rfl
      rw [e1, e2, List.count_eq_countP, List.countP_map]
      have hp1 := (hperm.filter (fun e => !validE now e)).countP_eq (fun e => decide (e.2.peerId = id))
      have hp2 : List.countP ((fun x => x == id) ∘ fun x => x.2.peerId) (pm.entries.filter (fun e => !validE now e)) =
          List.countP (fun e => decide (e.2.peerId = id)) (pm.entries.filter (fun e => !validE now e)) := by
        apply List.countP_congr; intro a _; simp [Function.comp]
      rw [hp2, hp1]
      have := countP_filter_split (proj r h) (fun e => decide (e.2.peerId = id)) (validE now)
      omega
    have := hsplit r
    have h5 := hsplit (Ref.clean r now (fun _ => true))
    simp only [removedOf, List.flatMap_cons, List.count_append] at iht ⊢
    rw [h4] at iht
    omega

end Aquatic.Stats

namespace Aquatic.Stats

open Aquatic

/-! ### export lines against the stored torrents -/

theorem entriesOf_of_mem {m : TMap} {h : Nat} {pm : PeerMap} (hn : m.hashes.Nodup) (hm : (h, pm) ∈ m) :
    m.entriesOf h = pm.entries := by
  simp [TMap.entriesOf, TMap.get_of_mem hn hm]

theorem live_perm {c : Nat} {m : TMap} {r : RState} (hs : Sim1 c m r) (now : Nat) {h : Nat} {pm : PeerMap}
    (hm : (h, pm) ∈ m) : (pm.entries.filter (validE now)).Perm (proj (Ref.clean r now (fun _ => true)) h) := by
  have := hs.2 h
  rw [entriesOf_of_mem hs.1.1 hm] at this
  rw [proj_clean]
  simpa using this.filter (validE now)

theorem lines_hashes_sublist (now : Nat) (m : TMap) : ((linesOf now m).map (·.1)).Sublist m.hashes := by
  unfold linesOf TMap.hashes
  induction m with
  | nil => simp
  | cons x t ih =>
    simp only [List.filterMap_cons, List.map_cons]
    cases hl : lineOf now x with
    | none => simp only; exact ih.cons _
    | some l =>
      simp only [List.map_cons]
      have : l.1 = x.1 := by
        simp only [lineOf] at hl
        split at hl
        · cases hl; rfl
        · cases hl
      rw [this]
      exact ih.cons_cons _

/-- the export lists exactly the torrents with stored peers, each once, with their true counts -/
theorem export_lines_exact {c : Nat} {m : TMap} {r : RState} (hs : Sim1 c m r) (now : Nat) :
    let r' := Ref.clean r now (fun _ => true)
    (∀ l ∈ linesOf now m, proj r' l.1 ≠ [] ∧ Ref.scrape r' l.1 = l.2) ∧
    (∀ h, proj r' h ≠ [] → (h, Ref.scrape r' h) ∈ linesOf now m) ∧
    ((linesOf now m).map (·.1)).Nodup := by
  simp only
  refine ⟨?_, ?_, ?_⟩
  · intro l hl
    simp only [linesOf, List.mem_filterMap] at hl
    obtain ⟨x, hx, hline⟩ := hl
    obtain ⟨h, pm⟩ := x
    have hp := live_perm hs now hx
    simp only [lineOf] at hline
    split at hline
    · rename_i hne
      cases hline
      simp only
      refine ⟨?_, ?_⟩
      · intro he
        rw [he] at hp
        exact hne (by simpa using hp.length_eq)
      · rw [scrape_proj, ← numSeeders_perm hp, ← hp.length_eq]
    · cases hline
  · intro h hne
    have hne0 : proj r h ≠ [] := by
      intro he
      rw [proj_clean] at hne
      simp [he] at hne
    have hent : m.entriesOf h ≠ [] := by
      intro he
      have := (hs.2 h).length_eq
      rw [he] at this
      exact hne0 (List.length_eq_zero_iff.mp this.symm)
    unfold TMap.entriesOf at hent
    cases hg : m.get h with
    | none => simp [hg] at hent
    | some pm =>
      have hm := TMap.mem_of_get hg
      have hp := live_perm hs now hm
      simp only [linesOf, List.mem_filterMap]
      refine ⟨(h, pm), hm, ?_⟩
      have hlen : (pm.entries.filter (validE now)).length ≠ 0 := by
        rw [hp.length_eq]
        exact fun e => hne (List.length_eq_zero_iff.mp e)
      simp only [lineOf, hlen, ne_eq, not_false_eq_true, if_true]
      rw [scrape_proj, ← numSeeders_perm hp, ← hp.length_eq]
  · have hsub := lines_hashes_sublist now m
    exact hsub.nodup hs.1.1

end Aquatic.Stats
