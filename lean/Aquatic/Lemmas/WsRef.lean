/- Lemmas about the reference WebTorrent tracker's flat entry list (find / rest / filter). -/
import Aquatic.Spec.RefWs
import Aquatic.Lemmas.IMap

namespace Aquatic.Ws.Ref

def keyOf (e : RW) : Nat × Nat := (e.hash, e.pid)
def KeysNodup (es : List RW) : Prop := (es.map keyOf).Nodup

theorem isKey_iff (h pid : Nat) (e : RW) : isKey h pid e = true ↔ e.hash = h ∧ e.pid = pid := by
  simp [isKey]

theorem isKey_eq_decide (h pid : Nat) (e : RW) : isKey h pid e = decide (keyOf e = (h, pid)) := by
  simp only [isKey, keyOf, Prod.mk.injEq]
  by_cases a : e.hash = h <;> by_cases b : e.pid = pid <;> simp [a, b]

theorem find_some {es : List RW} {h pid : Nat} {e : RW} (hf : find es h pid = some e) :
    e ∈ es ∧ e.hash = h ∧ e.pid = pid := by
  unfold find at hf
  exact ⟨List.mem_of_find?_eq_some hf, (isKey_iff h pid e).mp (List.find?_some hf)⟩

theorem find_eq_none {es : List RW} {h pid : Nat} : find es h pid = none ↔ (h, pid) ∉ es.map keyOf := by
  unfold find
  rw [List.find?_eq_none]
  constructor
  · intro hn hm
    obtain ⟨e, he, hk⟩ := List.mem_map.mp hm
    have := hn e he
    rw [isKey_eq_decide] at this
    simp [hk] at this
  · intro hn e he hk
    rw [isKey_eq_decide] at hk
    exact hn (List.mem_map.mpr ⟨e, he, of_decide_eq_true hk⟩)

theorem find_of_mem {es : List RW} (hn : KeysNodup es) {e : RW} (he : e ∈ es) : find es e.hash e.pid = some e := by
  induction es with
  | nil => cases he
  | cons a t ih =>
    simp only [KeysNodup, List.map_cons, List.nodup_cons] at hn
    rcases List.mem_cons.mp he with e' | e'
    · subst e'; simp [find, isKey]
    · have hne : isKey e.hash e.pid a = false := by
        rw [isKey_eq_decide]
        apply decide_eq_false
        intro hk
        exact hn.1 (List.mem_map.mpr ⟨e, e', hk.symm⟩)
      have := ih hn.2 e'
      simp only [find, List.find?_cons, hne] at this ⊢
      exact this

theorem find_cons (a : RW) (t : List RW) (h pid : Nat) :
    find (a :: t) h pid = if isKey h pid a then some a else find t h pid := by
  simp only [find, List.find?_cons]
  cases isKey h pid a <;> rfl

theorem find_append (a b : List RW) (h pid : Nat) :
    find (a ++ b) h pid = (find a h pid).or (find b h pid) := by
  simp [find, List.find?_append]

theorem find_rest (es : List RW) (h pid h' pid' : Nat) :
    find (rest es h pid) h' pid' = if h' = h ∧ pid' = pid then none else find es h' pid' := by
  induction es with
  | nil => simp [rest, find]
  | cons a t ih =>
    by_cases hk : isKey h pid a = true
    · have : rest (a :: t) h pid = rest t h pid := by simp [rest, hk]
      rw [this, ih, find_cons]
      by_cases e : h' = h ∧ pid' = pid
      · simp [e]
      · have : isKey h' pid' a = false := by
          rw [Bool.eq_false_iff]; intro hk'
          rw [isKey_iff] at hk hk'
          exact e ⟨hk'.1.symm.trans hk.1, hk'.2.symm.trans hk.2⟩
        simp [e, this]
    · have hk' : isKey h pid a = false := by simpa using hk
      have : rest (a :: t) h pid = a :: rest t h pid := by simp [rest, hk']
      rw [this, find_cons, find_cons, ih]
      by_cases e : h' = h ∧ pid' = pid
      · obtain ⟨e1, e2⟩ := e; subst e1 e2; simp [hk']
      · simp [e]

theorem keys_rest_sublist (es : List RW) (h pid : Nat) : ((rest es h pid).map keyOf).Sublist (es.map keyOf) :=
  (List.filter_sublist).map _

theorem nodup_rest {es : List RW} (h pid : Nat) (hn : KeysNodup es) : KeysNodup (rest es h pid) :=
  (keys_rest_sublist es h pid).nodup hn

theorem nodup_rest_append {es : List RW} (e : RW) (hn : KeysNodup es) : KeysNodup (rest es e.hash e.pid ++ [e]) := by
  unfold KeysNodup
  rw [List.map_append, List.nodup_append]
  refine ⟨nodup_rest _ _ hn, by simp, ?_⟩
  intro a ha b hb
  simp only [List.map_cons, List.map_nil, List.mem_singleton] at hb
  subst hb
  intro hab; subst hab
  have : find (rest es e.hash e.pid) e.hash e.pid = none := by rw [find_rest]; simp
  exact (find_eq_none.mp this) ha

theorem find_rest_append (es : List RW) (e : RW) (h' pid' : Nat) :
    find (rest es e.hash e.pid ++ [e]) h' pid' = if h' = e.hash ∧ pid' = e.pid then some e else find es h' pid' := by
  rw [find_append, find_rest]
  by_cases c : h' = e.hash ∧ pid' = e.pid
  · obtain ⟨c1, c2⟩ := c; subst c1 c2; simp [find, isKey]
  · simp only [c, if_false]
    cases hf : find es h' pid' with
    | some x => simp
    | none =>
      have : isKey h' pid' e = false := by
        rw [Bool.eq_false_iff]; intro hk; rw [isKey_iff] at hk; exact c ⟨hk.1.symm, hk.2.symm⟩
      simp [find, this]

theorem nodup_filter {es : List RW} (q : RW → Bool) (hn : KeysNodup es) : KeysNodup (es.filter q) :=
  ((List.filter_sublist).map _).nodup hn

theorem find_filter {es : List RW} (q : RW → Bool) (hn : KeysNodup es) (h pid : Nat) :
    find (es.filter q) h pid = (find es h pid).filter q := by
  induction es with
  | nil => rfl
  | cons a t ih =>
    simp only [KeysNodup, List.map_cons, List.nodup_cons] at hn
    by_cases hq : q a = true
    · rw [List.filter_cons_of_pos hq, find_cons, find_cons, ih hn.2]
      by_cases hk : isKey h pid a = true
      · simp [hk, Option.filter, hq]
      · have : isKey h pid a = false := by simpa using hk
        simp [this]
    · rw [List.filter_cons_of_neg hq, ih hn.2, find_cons]
      by_cases hk : isKey h pid a = true
      · have : find t h pid = none := by
          rw [find_eq_none]
          rw [isKey_iff] at hk
          have : keyOf a = (h, pid) := by simp [keyOf, hk.1, hk.2]
          rw [← this]; exact hn.1
        simp [hk, this, Option.filter, hq]
      · have : isKey h pid a = false := by simpa using hk
        simp [this]

/-! ### the entries of one torrent as an association list keyed by peer id -/

def torrentAssoc (es : List RW) (h : Nat) : List (Nat × RW) := (ofTorrent es h).map (fun e => (e.pid, e))

theorem torrentAssoc_nodup {es : List RW} (hn : KeysNodup es) (h : Nat) : (IMap.keys (torrentAssoc es h)).Nodup := by
  unfold torrentAssoc ofTorrent KeysNodup at *
  induction es with
  | nil => simp [IMap.keys]
  | cons a t ih =>
    simp only [List.map_cons, List.nodup_cons] at hn
    by_cases c : a.hash = h
    · simp only [List.filter_cons, c, decide_true, if_true, List.map_cons, IMap.keys, List.nodup_cons]
      refine ⟨?_, ih hn.2⟩
      intro hm
      simp only [List.map_map, List.mem_map, List.mem_filter, decide_eq_true_eq, Function.comp] at hm
      obtain ⟨b, ⟨hb, hbh⟩, hbp⟩ := hm
      exact hn.1 (List.mem_map.mpr ⟨b, hb, by simp [keyOf, hbh, hbp, c]⟩)
    · simp only [List.filter_cons, c, decide_false]
      exact ih hn.2

theorem get_torrentAssoc (es : List RW) (h pid : Nat) : IMap.get (torrentAssoc es h) pid = find es h pid := by
  unfold torrentAssoc ofTorrent
  induction es with
  | nil => rfl
  | cons a t ih =>
    rw [find_cons]
    by_cases c : a.hash = h
    · simp only [List.filter_cons, c, decide_true, if_true, List.map_cons, IMap.get]
      by_cases d : a.pid = pid
      · simp [d, isKey, c]
      · simp [d, isKey, ih]
    · simp only [List.filter_cons, c, decide_false]
      simp [isKey, c, ih]

end Aquatic.Ws.Ref
