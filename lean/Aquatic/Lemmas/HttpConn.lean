import Aquatic.Model.HttpConn

namespace Aquatic.Http

theorem growTo_ge (fuel len need : Nat) (hl : 1 ≤ len) (hf : need ≤ fuel + len) : need ≤ growTo fuel len need := by
  induction fuel generalizing len with
  | zero => simp only [growTo]; omega
  | succ f ih =>
    simp only [growTo]
    split
    · assumption
    · exact ih (2 * len) (by omega) (by omega)

theorem growTo_ge_len (fuel len need : Nat) : len ≤ growTo fuel len need := by
  induction fuel generalizing len with
  | zero => simp [growTo]
  | succ f ih =>
    simp only [growTo]
    split
    · exact Nat.le_refl _
    · exact Nat.le_trans (by omega) (ih (2 * len))

/-- writing into the middle of `x ++ y ++ z` replaces `y` -/
theorem setRange_mid (x y z bytes : S) (h : bytes.length = y.length) :
    setRange (x ++ (y ++ z)) x.length bytes = x ++ (bytes ++ z) := by
  simp only [setRange, List.take_left, h, List.append_assoc]
  congr 1
  congr 1
  have : x ++ (y ++ z) = (x ++ y) ++ z := by simp
  rw [this]
  exact List.drop_left' (by simp)

/-- the header is intact: `A`, eight cells, `C` -/
def HdrOk (buf : S) : Prop := ∃ cells rest, cells.length = 8 ∧ buf = hdrA ++ (cells ++ (hdrC ++ rest))

theorem freshBuffer_ok (size : Nat) : HdrOk (freshBuffer size) :=
  ⟨hdrB, List.replicate (size - hdrLen) 0, by decide, by simp [freshBuffer]⟩

theorem hdr_lens : hdrA.length = 33 ∧ hdrB.length = 8 ∧ hdrC.length = 4 ∧ hdrLen = 45 := by decide

theorem writeResponse_frame (buf body : S) (hok : HdrOk buf) (hd : (itoa (body.length + 2)).length ≤ 8) :
    let digits := itoa (body.length + 2)
    (writeResponse buf body).2 =
      hdrA ++ digits ++ List.replicate (8 - digits.length) 32 ++ hdrC ++ body ++ [13, 10] ∧
    HdrOk (writeResponse buf body).1 := by
  obtain ⟨cells, rest, hc, rfl⟩ := hok
  obtain ⟨la, lb, lc, lh⟩ := hdr_lens
  intro digits
  have hd' : digits.length ≤ 8 := hd
  -- the grown buffer: header, then at least |body| + 2 further bytes
  let need := hdrLen + body.length + 2
  let full := hdrA ++ (cells ++ (hdrC ++ rest))
  let len' := growTo need full.length need
  have hge : need ≤ len' := growTo_ge need full.length need (by simp [full, la]; omega) (by omega)
  have hgl : full.length ≤ len' := growTo_ge_len _ _ _
  let tailAll := rest ++ List.replicate (len' - full.length) 0
  have htl : body.length + 2 ≤ tailAll.length := by
    simp only [tailAll, full, List.length_append, List.length_replicate, la, lc, hc] at hge hgl ⊢
    simp only [need, lh] at hge
    omega
  -- split the tail into the part that receives body + CRLF and what stays behind
  let t1 := tailAll.take body.length
  let t2 := (tailAll.drop body.length).take 2
  let t3 := tailAll.drop (body.length + 2)
  have ht : tailAll = t1 ++ (t2 ++ t3) := by
    simp only [t1, t2, t3]
    rw [← List.append_assoc]
    have : List.take 2 (List.drop body.length tailAll) ++ List.drop (body.length + 2) tailAll = List.drop body.length tailAll := by
      rw [← List.drop_drop]
      exact List.take_append_drop 2 _
    rw [List.append_assoc, this, List.take_append_drop]
  have ht1 : t1.length = body.length := by simp only [t1, List.length_take]; omega
  have ht2 : t2.length = 2 := by simp only [t2, List.length_take, List.length_drop]; omega
  have hbuf1 : full ++ List.replicate (len' - full.length) 0 = (hdrA ++ cells ++ hdrC) ++ (t1 ++ (t2 ++ t3)) := by
    rw [← ht]; simp [full, tailAll]
  have hpos : (hdrA ++ cells ++ hdrC).length = hdrLen := by simp [la, lc, hc, lh]
  -- body
  have s2 : setRange ((hdrA ++ cells ++ hdrC) ++ (t1 ++ (t2 ++ t3))) hdrLen body =
      (hdrA ++ cells ++ hdrC) ++ (body ++ (t2 ++ t3)) := by
    rw [← hpos]; exact setRange_mid _ _ _ _ ht1.symm
  -- CRLF
  have s3 : setRange ((hdrA ++ cells ++ hdrC) ++ (body ++ (t2 ++ t3))) (hdrLen + body.length) [13, 10] =
      (hdrA ++ cells ++ hdrC ++ body) ++ ([13, 10] ++ t3) := by
    have := setRange_mid (hdrA ++ cells ++ hdrC ++ body) t2 t3 [13, 10] (by simp [ht2])
    have hl : (hdrA ++ cells ++ hdrC ++ body).length = hdrLen + body.length := by
      simp only [List.length_append, la, lc, hc, lh]
    rw [hl] at this
    simpa using this
  -- the eight cells are blanked
  have s4 : setRange ((hdrA ++ cells ++ hdrC ++ body) ++ ([13, 10] ++ t3)) hdrA.length hdrB =
      hdrA ++ (hdrB ++ (hdrC ++ body ++ ([13, 10] ++ t3))) := by
    have := setRange_mid hdrA cells (hdrC ++ body ++ ([13, 10] ++ t3)) hdrB (by simp [lb, hc])
    simpa using this
  -- the digits
  have hsplitB : hdrB = List.replicate digits.length 32 ++ List.replicate (8 - digits.length) 32 := by
    have : hdrB = List.replicate 8 32 := by decide
    rw [this, List.replicate_append_replicate]; congr 1; omega
  have s5 : setRange (hdrA ++ (hdrB ++ (hdrC ++ body ++ ([13, 10] ++ t3)))) hdrA.length digits =
      hdrA ++ (digits ++ (List.replicate (8 - digits.length) 32 ++ (hdrC ++ body ++ ([13, 10] ++ t3)))) := by
    have := setRange_mid hdrA (List.replicate digits.length 32)
      (List.replicate (8 - digits.length) 32 ++ (hdrC ++ body ++ ([13, 10] ++ t3))) digits (by simp)
    rw [hsplitB]
    have e : hdrA ++ (List.replicate digits.length 32 ++ List.replicate (8 - digits.length) 32 ++ (hdrC ++ body ++ ([13, 10] ++ t3))) =
        hdrA ++ (List.replicate digits.length 32 ++ (List.replicate (8 - digits.length) 32 ++ (hdrC ++ body ++ ([13, 10] ++ t3)))) := by
      simp only [List.append_assoc]
    rw [e]
    exact this
  have hfinal : (writeResponse (hdrA ++ (cells ++ (hdrC ++ rest))) body).1 =
      hdrA ++ (digits ++ (List.replicate (8 - digits.length) 32 ++ (hdrC ++ body ++ ([13, 10] ++ t3)))) := by
    simp only [writeResponse]
    rw [hbuf1, s2, s3, s4, s5]
  refine ⟨?_, ?_⟩
  · have hsent : (writeResponse (hdrA ++ (cells ++ (hdrC ++ rest))) body).2 =
        ((writeResponse (hdrA ++ (cells ++ (hdrC ++ rest))) body).1).take need := rfl
    rw [hsent, hfinal]
    have hre : hdrA ++ (digits ++ (List.replicate (8 - digits.length) 32 ++ (hdrC ++ body ++ ([13, 10] ++ t3)))) =
        (hdrA ++ digits ++ List.replicate (8 - digits.length) 32 ++ hdrC ++ body ++ [13, 10]) ++ t3 := by simp
    rw [hre]
    have hlen : (hdrA ++ digits ++ List.replicate (8 - digits.length) 32 ++ hdrC ++ body ++ [13, 10]).length = need := by
      simp only [List.length_append, List.length_replicate, la, lc, need, lh, List.length_cons, List.length_nil]
      omega
    rw [← hlen]
    exact List.take_left
  · rw [hfinal]
    refine ⟨digits ++ List.replicate (8 - digits.length) 32, body ++ ([13, 10] ++ t3), ?_, by simp⟩
    simp only [List.length_append, List.length_replicate]; omega

end Aquatic.Http
