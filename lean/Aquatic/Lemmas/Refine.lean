/-
  Simulation between the store model (Model/Tracker.lean `step`) and the
  reference tracker (`refStep`).
-/
import Aquatic.Lemmas.TMap

namespace Aquatic

/-- the reference's entries of torrent `h`, as (key, peer) pairs -/
def proj (r : RState) (h : Nat) : Entries :=
  (r.filter (fun e => e.hash = h)).map (fun e => (e.key, e.peer))

@[simp] theorem proj_nil (h : Nat) : proj [] h = [] := rfl

theorem proj_cons (e : REntry) (r : RState) (h : Nat) :
    proj (e :: r) h = if e.hash = h then (e.key, e.peer) :: proj r h else proj r h := by
  by_cases c : e.hash = h <;> simp [proj, List.filter_cons, c]

theorem proj_append (a b : RState) (h : Nat) : proj (a ++ b) h = proj a h ++ proj b h := by
  simp [proj]

theorem proj_rest' (r : RState) (h : Nat) (k : Key) (h' : Nat) :
    proj (r.filter (fun e => !decide (e.hash = h) || !decide (e.key = k))) h' =
      if h' = h then without (proj r h) k else proj r h' := by
  induction r with
  | nil => simp
  | cons e t ih =>
    by_cases c1 : e.hash = h
    · by_cases c2 : e.key = k
      · by_cases c3 : h' = h
        · subst c3
          simp only [↓reduceIte] at ih
          simp [List.filter_cons, c1, c2, proj_cons, ih, without_cons_eq]
        · have : ¬ h = h' := fun x => c3 x.symm
          simp only [c3, ↓reduceIte] at ih
          simp [List.filter_cons, c1, c2, proj_cons, ih, c3, this]
      · by_cases c3 : h' = h
        · subst c3
          simp only [↓reduceIte] at ih
          simp [List.filter_cons, c1, c2, proj_cons, ih, without_cons_ne _ _ c2]
        · have : ¬ h = h' := fun x => c3 x.symm
          simp only [c3, ↓reduceIte] at ih
          simp [List.filter_cons, c1, c2, proj_cons, ih, c3, this]
    · by_cases c3 : h' = h
      · subst c3
        simp only [↓reduceIte] at ih
        simp [List.filter_cons, c1, proj_cons, ih]
      · simp only [c3, ↓reduceIte] at ih
        by_cases c4 : e.hash = h'
        · simp [List.filter_cons, c1, proj_cons, ih, c3, c4]
        · simp [List.filter_cons, c1, proj_cons, ih, c3, c4]

theorem proj_rest (r : RState) (h : Nat) (k : Key) (h' : Nat) :
    proj (r.filter (fun e => ¬ (e.hash = h ∧ e.key = k))) h' =
      if h' = h then without (proj r h) k else proj r h' := by
  simpa using proj_rest' r h k h'

theorem others_map' (r : RState) (h : Nat) (k : Key) :
    (r.filter (fun e => decide (e.hash = h) && !decide (e.key = k))).map (fun e => (e.key, e.peer))
      = without (proj r h) k := by
  induction r with
  | nil => rfl
  | cons e t ih =>
    by_cases c1 : e.hash = h
    · by_cases c2 : e.key = k
      · simp [List.filter_cons, c1, c2, proj_cons, ih, without_cons_eq]
      · simp [List.filter_cons, c1, c2, proj_cons, ih, without_cons_ne _ _ c2]
    · simp [List.filter_cons, c1, proj_cons, ih]

theorem others_map (r : RState) (h : Nat) (k : Key) :
    (Ref.others r h k).map (fun e => (e.key, e.peer)) = without (proj r h) k := by
  simpa [Ref.others] using others_map' r h k

theorem countP_seeder_map (l : RState) :
    l.countP (·.peer.seeder) = numSeeders (l.map (fun e => (e.key, e.peer))) := by
  simp [numSeeders, List.countP_map, Function.comp_def]

theorem countP_leecher (l : RState) :
    l.countP (fun e => !e.peer.seeder) = l.length - l.countP (·.peer.seeder) := by
  induction l with
  | nil => rfl
  | cons e t ih =>
    have := List.countP_le_length (p := fun e : REntry => e.peer.seeder) (l := t)
    cases hs : e.peer.seeder <;> simp [List.countP_cons, hs, ih] <;> omega

theorem proj_newEntry (r : RState) (h : Nat) (k : Key) (st : Status) (pid dl : Nat) (h' : Nat) :
    proj (Ref.announce r h k st pid dl).1 h' =
      if h' = h then without (proj r h) k ++ newEntry k st pid dl else proj r h' := by
  have hr := proj_rest r h k h'
  cases st with
  | stopped =>
    simp only [Ref.announce, newEntry, List.append_nil]
    exact hr
  | seeding =>
    simp only [Ref.announce, newEntry, proj_append, hr, proj_cons]
    by_cases c : h' = h
    · subst c; simp
    · have : ¬ h = h' := fun x => c x.symm
      simp [c, this]
  | leeching =>
    simp only [Ref.announce, newEntry, proj_append, hr, proj_cons]
    by_cases c : h' = h
    · subst c; simp
    · have : ¬ h = h' := fun x => c x.symm
      simp [c, this]

theorem announce_view (r : RState) (h : Nat) (k : Key) (st : Status) (pid dl : Nat) :
    (Ref.announce r h k st pid dl).2 =
      ⟨numSeeders (without (proj r h) k),
       (without (proj r h) k).length - numSeeders (without (proj r h) k),
       keysOf (without (proj r h) k)⟩ := by
  have e1 := others_map r h k
  have e2 : (Ref.others r h k).countP (·.peer.seeder) = numSeeders (without (proj r h) k) := by
    rw [countP_seeder_map, e1]
  have e3 : (Ref.others r h k).length = (without (proj r h) k).length := by
    rw [← e1, List.length_map]
  have e4 : (Ref.others r h k).map (·.key) = keysOf (without (proj r h) k) := by
    rw [← e1]; simp [keysOf, List.map_map, Function.comp_def]
  cases st <;> simp [Ref.announce, countP_leecher, e2, e3, e4]

theorem proj_clean (r : RState) (now : Nat) (allowed : Nat → Bool) (h : Nat) :
    proj (Ref.clean r now allowed) h = if allowed h then (proj r h).filter (validE now) else [] := by
  induction r with
  | nil => simp [Ref.clean]
  | cons e t ih =>
    simp only [Ref.clean] at ih
    by_cases c1 : e.hash = h
    · subst c1
      by_cases c2 : allowed e.hash
      · simp only [c2, ↓reduceIte] at ih
        by_cases c3 : now < e.peer.deadline
        · simp [Ref.clean, List.filter_cons, c2, c3, proj_cons, ih, validE, isValid]
        · simp [Ref.clean, List.filter_cons, c2, c3, proj_cons, ih, validE, isValid]
      · simp only [c2, Bool.false_eq_true, ↓reduceIte] at ih
        simp [Ref.clean, List.filter_cons, c2, ih]
    · by_cases c2 : allowed h
      · simp only [c2, ↓reduceIte] at ih
        by_cases c3 : (decide (now < e.peer.deadline) && allowed e.hash) = true
        · simp [Ref.clean, List.filter_cons, c3, proj_cons, c1, ih, c2]
        · simp [Ref.clean, List.filter_cons, c3, proj_cons, c1, ih, c2]
      · simp only [c2, Bool.false_eq_true, ↓reduceIte] at ih
        by_cases c3 : (decide (now < e.peer.deadline) && allowed e.hash) = true
        · simp [Ref.clean, List.filter_cons, c3, proj_cons, c1, ih, c2]
        · simp [Ref.clean, List.filter_cons, c3, proj_cons, c1, ih, c2]

theorem scrape_proj (r : RState) (h : Nat) :
    Ref.scrape r h = (numSeeders (proj r h), (proj r h).length - numSeeders (proj r h)) := by
  simp only [Ref.scrape, Ref.ofTorrent, countP_leecher, countP_seeder_map, proj, List.length_map]

/-! ### the simulation relation -/

def Sim1 (c : Nat) (m : TMap) (r : RState) : Prop :=
  TMap.Inv c m ∧ ∀ h, (m.entriesOf h).Perm (proj r h)

theorem without_perm {a b : Entries} (h : a.Perm b) (k : Key) : (without a k).Perm (without b k) :=
  h.filter _

theorem PeersOk.of_perm {peers c1 c2 : List Key} {n : Nat} (hp : c1.Perm c2) (h : PeersOk peers c1 n) :
    PeersOk peers c2 n :=
  ⟨h.nodup, fun k hk => hp.mem_iff.mp (h.sound k hk), h.le,
   fun hl => (h.all (by rw [hp.length_eq]; exact hl)).trans hp,
   fun hl => h.most (by rw [hp.length_eq]; exact hl)⟩

theorem sim1_init (c : Nat) : Sim1 c [] [] :=
  ⟨TMap.inv_nil c, fun h => by simp [TMap.entriesOf_nil]⟩

/-- one announce preserves the simulation and yields the reference's reply -/
theorem sim1_announce (c : Nat) (m : TMap) (r : RState) (h : Nat) (key : Key) (st : Status)
    (pid dl n o1 o2 : Nat) (hs : Sim1 c m r) (hoff : m.OffOk h key n o1 o2) :
    ∃ m' out, m.announce c h key st pid dl n o1 o2 = .ok (m', out) ∧
      Sim1 c m' (Ref.announce r h key st pid dl).1 ∧
      out.seeders = (Ref.announce r h key st pid dl).2.seeders ∧
      out.leechers = (Ref.announce r h key st pid dl).2.leechers ∧
      PeersOk out.peers (Ref.announce r h key st pid dl).2.candidates n := by
  obtain ⟨m', out, ha, hinv', hent, hse, hle, _, hpk⟩ :=
    TMap.announce_spec c m h key st pid dl n o1 o2 hs.1 hoff
  have hw := without_perm (hs.2 h) key
  refine ⟨m', out, ha, ⟨hinv', ?_⟩, ?_, ?_, ?_⟩
  · intro h'
    rw [proj_newEntry]
    refine (hent h').trans ?_
    by_cases c' : h' = h
    · simp only [c', ↓reduceIte]
      exact List.Perm.append_right _ hw
    · simp only [c', ↓reduceIte]
      exact hs.2 h'
  · rw [announce_view, hse]; exact numSeeders_perm hw
  · rw [announce_view]
    simp only
    have := numSeeders_perm hw
    have := hw.length_eq
    omega
  · rw [announce_view]
    exact hpk.of_perm (keysOf_perm hw)

theorem sim1_scrapeOne (c : Nat) (m : TMap) (r : RState) (h : Nat) (hs : Sim1 c m r) :
    m.scrapeOne h = .ok (Ref.scrape r h) := by
  rw [TMap.scrapeOne_spec c m h hs.1, scrape_proj]
  have := numSeeders_perm (hs.2 h)
  have := (hs.2 h).length_eq
  congr 2 <;> omega

theorem sim1_scrapeList (c : Nat) (m : TMap) (r : RState) (hs : Sim1 c m r) (l : List Nat) :
    scrapeList m l = .ok (l.map (fun h => (h, (Ref.scrape r h).1, (Ref.scrape r h).2))) := by
  induction l with
  | nil => rfl
  | cons h t ih =>
    simp [scrapeList, sim1_scrapeOne c m r h hs, ih, bind, Except.bind, pure, Except.pure]

theorem sim1_of_cleanPost {c : Nat} {m m' : TMap} {r : RState} {now : Nat} {allowed : Nat → Bool}
    (hs : Sim1 c m r) (hp : TMap.CleanPost c m m' now allowed) :
    Sim1 c m' (Ref.clean r now allowed) := by
  refine ⟨hp.inv, ?_⟩
  intro h
  rw [hp.entries h, proj_clean]
  split
  · exact (hs.2 h).filter _
  · exact List.Perm.refl _

end Aquatic
