/- The whole WebTorrent tracker model (store + per-connection records) against the reference. -/
import Aquatic.Lemmas.WsSim3

namespace Aquatic.Ws

open Aquatic

theorem bookAfter_nodup {b : Book} (req : AnnReq) (hn : (IMap.keys b).Nodup) : (IMap.keys (bookAfter b req)).Nodup := by
  unfold bookAfter
  simp only
  split
  · exact IMap.nodup_swapRemove _ (IMap.nodup_insert _ _ hn)
  · exact IMap.nodup_insert _ _ hn

theorem get_bookAfter {b : Book} (req : AnnReq) (hn : (IMap.keys b).Nodup) (h' : Nat) :
    IMap.get (bookAfter b req) h' =
      if h' = req.hash then (if req.stopped then none else some req.pid) else IMap.get b h' := by
  unfold bookAfter
  simp only
  split
  · rw [IMap.get_swapRemove _ _ (IMap.nodup_insert _ _ hn), IMap.get_insert]
    by_cases e : h' = req.hash
    · simp [e]
    · simp [e, Ne.symm e]
  · rw [IMap.get_insert]
    by_cases e : h' = req.hash
    · simp [e]
    · simp [e, Ne.symm e]

structure SysSim (s : Sys) (rs : RefSys) : Prop where
  sim : WSim s.m rs.w
  books : s.books = rs.books
  booksNodup : (IMap.keys rs.books).Nodup
  bookNodup : ∀ c, (IMap.keys (rs.bookOf c)).Nodup
  covers : ∀ e ∈ rs.w.entries, IMap.get (rs.bookOf e.owner) e.hash = some e.pid

theorem sysSim_init : SysSim {} {} :=
  ⟨wsim_init, rfl, by simp [IMap.keys], by intro c; simp [RefSys.bookOf, IMap.get, IMap.keys],
   by intro e he; cases he⟩

theorem bookOf_eq {s : Sys} {rs : RefSys} (h : SysSim s rs) (c : ConnId) : bookOf s c = rs.bookOf c := by
  simp [bookOf, RefSys.bookOf, h.books]

theorem covers_pairs {s : Sys} {rs : RefSys} (h : SysSim s rs) (c : ConnId) : Covers rs.w c (rs.bookOf c) := by
  intro e he ho
  have := h.covers e he
  rw [ho] at this
  exact IMap.mem_of_get this

theorem bookOf_insert (books : List (ConnId × Book)) (c c' : ConnId) (b : Book) :
    (IMap.get (IMap.insert books c b) c').getD [] = if c = c' then b else (IMap.get books c').getD [] := by
  rw [IMap.get_insert]; split <;> rfl

/-- closing a connection: the model sends the recorded pairs, the reference drops what the
connection owns -/
theorem sysClose_sim {s : Sys} {rs : RefSys} (h : SysSim s rs) (conn : ConnId) :
    ∃ s', sysClose s conn = .ok s' ∧ SysSim s' (refClose rs conn) := by
  obtain ⟨m', hc, hs'⟩ := close_sim h.sim conn (rs.bookOf conn) (covers_pairs h conn)
  refine ⟨⟨m', (IMap.swapRemove s.books conn).1⟩, ?_, ?_⟩
  · simp [sysClose, bookOf_eq h, hc, bind, Except.bind, pure, Except.pure]
  · have hb : ∀ c, c ≠ conn → (refClose rs conn).bookOf c = rs.bookOf c := by
      intro c hne
      simp only [refClose, RefSys.bookOf]
      rw [IMap.get_swapRemove _ _ h.booksNodup]
      simp [hne]
    have hb0 : (refClose rs conn).bookOf conn = [] := by
      simp only [refClose, RefSys.bookOf]
      rw [IMap.get_swapRemove _ _ h.booksNodup]
      simp
    refine ⟨hs', by simp [refClose, h.books], IMap.nodup_swapRemove _ h.booksNodup, ?_, ?_⟩
    · intro c
      by_cases e : c = conn
      · rw [e, hb0]; simp [IMap.keys]
      · rw [hb c e]; exact h.bookNodup c
    · intro e he
      simp only [refClose, Ref.close, List.mem_filter, Bool.not_eq_eq_eq_not, Bool.not_true,
        decide_eq_false_iff_not] at he
      rw [hb e.owner he.2]
      exact h.covers e he.1

/-- the announce path of the socket worker after the gate and the one-peer-id rule -/
theorem sysAnnounce_sim {s : Sys} {rs : RefSys} (cfg : WsCfg) (h : SysSim s rs) (conn : ConnId) (req : AnnReq)
    (now o1 o2 : Nat) (ho : AnnOffOk cfg s.m conn req o1 o2)
    (hbook : ∀ pid', IMap.get (rs.bookOf conn) req.hash = some pid' → pid' = req.pid) :
    ∃ m' msgs recv, announce cfg s.m conn req now o1 o2 = .ok (m', msgs) ∧
      msgs = (Ref.announce cfg rs.w conn req now recv).2 ∧
      SysSim ⟨m', IMap.insert s.books conn (bookAfter (bookOf s conn) req)⟩
        ⟨(Ref.announce cfg rs.w conn req now recv).1, IMap.insert rs.books conn (bookAfter (rs.bookOf conn) req)⟩ ∧
      (Accepted rs.w conn req → req.stopped = false →
        Ref.recvOk cfg (Ref.announce cfg rs.w conn req now recv).1.entries req recv) := by
  obtain ⟨m', msgs, recv, hok, hsim, hmsgs, hrecv⟩ := announce_sim cfg s.m rs.w conn req now o1 o2 h.sim ho
  refine ⟨m', msgs, recv, hok, hmsgs, ⟨hsim, by simp [bookOf_eq h, h.books], IMap.nodup_insert _ _ h.booksNodup, ?_, ?_⟩, hrecv⟩
  · intro c
    simp only [RefSys.bookOf]
    rw [bookOf_insert]
    split
    · exact bookAfter_nodup req (h.bookNodup conn)
    · exact h.bookNodup c
  · -- every entry is recorded in its owner's book
    intro e he
    have hbk : ∀ c, (⟨(Ref.announce cfg rs.w conn req now recv).1, IMap.insert rs.books conn (bookAfter (rs.bookOf conn) req)⟩ : RefSys).bookOf c =
        if conn = c then bookAfter (rs.bookOf conn) req else rs.bookOf c := by
      intro c; simp only [RefSys.bookOf]; rw [bookOf_insert]
    rw [hbk]
    -- where does `e` come from?
    have hcases : (e ∈ rs.w.entries ∧ ¬ (e.hash = req.hash ∧ e.pid = req.pid)) ∨
        (e ∈ rs.w.entries ∧ e.hash = req.hash ∧ e.pid = req.pid ∧ e.owner ≠ conn) ∨
        (e.hash = req.hash ∧ e.pid = req.pid ∧ e.owner = conn ∧ req.stopped = false) := by
      simp only at he
      unfold Ref.announce at he
      have hcore : e ∈ (Ref.announceCore cfg rs.w conn req now recv).1.entries →
          (e ∈ rs.w.entries ∧ ¬ (e.hash = req.hash ∧ e.pid = req.pid)) ∨
          (e.hash = req.hash ∧ e.pid = req.pid ∧ e.owner = conn ∧ req.stopped = false) := by
        intro hm
        unfold Ref.announceCore at hm
        have hrest : ∀ x, x ∈ Ref.rest rs.w.entries req.hash req.pid → x ∈ rs.w.entries ∧ ¬ (x.hash = req.hash ∧ x.pid = req.pid) := by
          intro x hx
          simp only [Ref.rest, List.mem_filter, Bool.not_eq_eq_eq_not, Bool.not_true] at hx
          refine ⟨hx.1, ?_⟩
          intro hk
          have := (Ref.isKey_iff req.hash req.pid x).mpr hk
          rw [this] at hx; exact Bool.noConfusion hx.2
        cases hst : wsStatus req.stopped req.left with
        | stopped => rw [hst] at hm; exact .inl (hrest e hm)
        | seeding | leeching =>
          all_goals
            rw [hst] at hm
            simp only [List.mem_append, List.mem_singleton] at hm
            rcases hm with hm | hm
            · exact .inl (hrest e hm)
            · refine .inr ?_
              have hns : req.stopped = false := by
                unfold wsStatus at hst
                cases hq : req.stopped
                · rfl
                · simp [hq] at hst
              subst hm
              exact ⟨rfl, rfl, rfl, hns⟩
      cases hf : Ref.find rs.w.entries req.hash req.pid with
      | none => rw [hf] at he; rcases hcore he with x | x; exact .inl x; exact .inr (.inr x)
      | some e0 =>
        rw [hf] at he
        simp only at he
        by_cases hown : e0.owner = conn
        · rw [if_pos hown] at he
          rcases hcore he with x | x; exact .inl x; exact .inr (.inr x)
        · rw [if_neg hown] at he
          by_cases hk : e.hash = req.hash ∧ e.pid = req.pid
          · right; left
            have := Ref.find_of_mem h.sim.nodup he
            rw [hk.1, hk.2, hf] at this
            cases this
            exact ⟨he, hk.1, hk.2, hown⟩
          · exact .inl ⟨he, hk⟩
    rcases hcases with ⟨hmem, hnk⟩ | ⟨hmem, hh, hp, hown⟩ | ⟨hh, hp, hown, hns⟩
    · have hcov := h.covers e hmem
      by_cases ec : conn = e.owner
      · rw [if_pos ec, get_bookAfter req (h.bookNodup conn)]
        rw [← ec] at hcov
        by_cases eh : e.hash = req.hash
        · exfalso
          rw [eh] at hcov
          exact hnk ⟨eh, (hbook _ hcov)⟩
        · simp [eh, hcov]
      · rw [if_neg ec]; exact hcov
    · rw [if_neg (fun x => hown x.symm)]; exact h.covers e hmem
    · rw [if_pos hown.symm, get_bookAfter req (h.bookNodup conn), hh, hp]
      simp [hns]

end Aquatic.Ws
