/-
  Helper lemmas for the lock skeleton (Model/Locks): the locking discipline, mutual exclusion as an
  invariant of every step, preservation of the discipline.
-/
import Aquatic.Model.Locks

namespace Aquatic.Locks

/-- The locking discipline of swarm.rs, as a predicate on what a thread holds and what it still
has to do: a shard lock is only acquired with empty hands; a peer-map lock only while holding
nothing but shard locks, and never in upgradable mode; an upgrade only by a thread holding exactly
that shard lock in upgradable mode; a release only of a lock that is held; a thread ends with
empty hands. -/
def Disc : Held → List Act → Prop
  | held, [] => held = []
  | held, .acq l m :: p =>
      ((l.isShard = true ∧ held = []) ∨ (l.isShard = false ∧ m ≠ .upg ∧ ∀ x ∈ held, x.1.isShard = true)) ∧
      Disc ((l, m) :: held) p
  | held, .upgrade l :: p => l.isShard = true ∧ held = [(l, .upg)] ∧ Disc [(l, .write)] p
  | held, .rel l :: p => holds held l = true ∧ Disc (eraseLock held l) p

def AllDisc (ts : List Thread) : Prop := ∀ t ∈ ts, Disc t.held t.prog

/-- what two different threads may hold at the same time -/
def Compat (a b : Held) : Prop :=
  ∀ l, (holdsIn a l .write = true → holds b l = false) ∧ (holdsIn b l .write = true → holds a l = false) ∧
       (holdsIn a l .upg = true → holdsIn b l .upg = false)

/-- mutual exclusion: any two threads of the pool are compatible -/
def Excl (ts : List Thread) : Prop :=
  ∀ (i j : Nat) (a b : Thread), ts[i]? = some a → ts[j]? = some b → i ≠ j → Compat a.held b.held

theorem Compat.symm {a b : Held} (h : Compat a b) : Compat b a := by
  intro l
  obtain ⟨h1, h2, h3⟩ := h l
  refine ⟨h2, h1, ?_⟩
  intro hb
  cases ha : holdsIn a l .upg with
  | false => rfl
  | true => have := h3 ha; rw [this] at hb; cases hb

theorem holdsIn_holds {h : Held} {l : LockId} {m : Mode} (hh : holdsIn h l m = true) : holds h l = true := by
  unfold holdsIn at hh; unfold holds
  rw [List.any_eq_true] at *
  obtain ⟨x, hx, hp⟩ := hh
  exact ⟨x, hx, by simp at hp; simp [hp.1]⟩

theorem holds_false_holdsIn {h : Held} {l : LockId} (m : Mode) (hh : holds h l = false) : holdsIn h l m = false := by
  cases h' : holdsIn h l m with
  | false => rfl
  | true => rw [holdsIn_holds h'] at hh; cases hh

theorem index_mem_eraseIdx {α : Type} {l : List α} {i j : Nat} {x : α} (hj : j ≠ i) (h : l[j]? = some x) :
    x ∈ l.eraseIdx i := by
  rw [List.mem_eraseIdx_iff_getElem?]
  exact ⟨j, hj, h⟩

theorem mem_eraseIdx_index {α : Type} {l : List α} {i : Nat} {x : α} (h : x ∈ l.eraseIdx i) :
    ∃ j, j ≠ i ∧ l[j]? = some x := by
  rw [List.mem_eraseIdx_iff_getElem?] at h
  obtain ⟨j, hj, hx⟩ := h
  exact ⟨j, hj, hx⟩

theorem holds_cons (h : Held) (l l' : LockId) (m : Mode) :
    holds ((l', m) :: h) l = (decide (l' = l) || holds h l) := by
  simp [holds]

theorem holdsIn_cons (h : Held) (l l' : LockId) (m m' : Mode) :
    holdsIn ((l', m') :: h) l m = (decide (l' = l ∧ m' = m) || holdsIn h l m) := by
  simp [holdsIn]

theorem holds_erase_self (h : Held) (l : LockId) : holds (eraseLock h l) l = false := by
  simp [holds, eraseLock]

theorem holds_erase_le (h : Held) (l l' : LockId) (hh : holds (eraseLock h l) l' = true) : holds h l' = true := by
  unfold holds eraseLock at *
  rw [List.any_eq_true] at *
  obtain ⟨x, hx, hp⟩ := hh
  exact ⟨x, (List.mem_filter.mp hx).1, hp⟩

theorem holdsIn_erase_le (h : Held) (l l' : LockId) (m : Mode)
    (hh : holdsIn (eraseLock h l) l' m = true) : holdsIn h l' m = true := by
  unfold holdsIn eraseLock at *
  rw [List.any_eq_true] at *
  obtain ⟨x, hx, hp⟩ := hh
  exact ⟨x, (List.mem_filter.mp hx).1, hp⟩

theorem compat_erase {a b : Held} (l : LockId) (hc : Compat a b) : Compat (eraseLock a l) b := by
  intro l0
  obtain ⟨c1, c2, c3⟩ := hc l0
  refine ⟨fun hh => c1 (holdsIn_erase_le a l l0 .write hh), ?_, fun hh => c3 (holdsIn_erase_le a l l0 .upg hh)⟩
  intro hw
  cases hx : holds (eraseLock a l) l0 with
  | false => rfl
  | true => have := holds_erase_le a l l0 hx; rw [c2 hw] at this; cases this

/-- adding a lock nobody else holds at all keeps compatibility, whatever the mode -/
theorem compat_cons_free {a b : Held} (l : LockId) (m : Mode) (hc : Compat a b) (hb : holds b l = false) :
    Compat ((l, m) :: a) b := by
  intro l0
  obtain ⟨c1, c2, c3⟩ := hc l0
  by_cases hl : l = l0
  · subst hl
    refine ⟨fun _ => hb, ?_, fun _ => holds_false_holdsIn _ hb⟩
    intro hw; rw [holds_false_holdsIn _ hb] at hw; cases hw
  · refine ⟨?_, ?_, ?_⟩
    · rw [holdsIn_cons]; simpa [hl] using c1
    · intro hw; rw [holds_cons]; simpa [hl] using c2 hw
    · rw [holdsIn_cons]; simpa [hl] using c3

theorem compat_cons_read {a b : Held} (l : LockId) (hc : Compat a b) (hb : holdsIn b l .write = false) :
    Compat ((l, .read) :: a) b := by
  intro l0
  obtain ⟨c1, c2, c3⟩ := hc l0
  by_cases hl : l = l0
  · subst hl
    refine ⟨?_, ?_, ?_⟩
    · rw [holdsIn_cons]; simpa using c1
    · intro hw; rw [hb] at hw; cases hw
    · rw [holdsIn_cons]; simpa using c3
  · refine ⟨?_, ?_, ?_⟩
    · rw [holdsIn_cons]; simpa [hl] using c1
    · intro hw; rw [holds_cons]; simpa [hl] using c2 hw
    · rw [holdsIn_cons]; simpa [hl] using c3

theorem compat_cons_upg {a b : Held} (l : LockId) (hc : Compat a b) (hb : holdsIn b l .write = false)
    (hb' : holdsIn b l .upg = false) : Compat ((l, .upg) :: a) b := by
  intro l0
  obtain ⟨c1, c2, c3⟩ := hc l0
  by_cases hl : l = l0
  · subst hl
    refine ⟨?_, ?_, fun _ => hb'⟩
    · rw [holdsIn_cons]; simpa using c1
    · intro hw; rw [hb] at hw; cases hw
  · refine ⟨?_, ?_, ?_⟩
    · rw [holdsIn_cons]; simpa [hl] using c1
    · intro hw; rw [holds_cons]; simpa [hl] using c2 hw
    · rw [holdsIn_cons]; simpa [hl] using c3

/-- a step of one thread keeps it compatible with every other thread -/
theorem stepT_compat {others : List Thread} {t t' : Thread} (hs : stepT others t = some t')
    {o : Thread} (ho : o ∈ others) (hc : Compat t.held o.held) : Compat t'.held o.held := by
  obtain ⟨held, prog⟩ := t
  unfold stepT at hs
  cases prog with
  | nil => simp at hs
  | cons a p =>
    cases a with
    | acq l m =>
      simp only at hs
      split at hs
      · rename_i hcond
        simp only [Bool.and_eq_true] at hcond
        cases hs
        have hcomp := hcond.2
        cases m with
        | read =>
          simp only [compatible, List.all_eq_true] at hcomp
          have ho' := hcomp o ho
          exact compat_cons_read l hc (by simpa using ho')
        | upg =>
          simp only [compatible, List.all_eq_true, Bool.and_eq_true] at hcomp
          have ho' := hcomp o ho
          exact compat_cons_upg l hc (by simpa using ho'.1) (by simpa using ho'.2)
        | write =>
          simp only [compatible, List.all_eq_true] at hcomp
          have ho' := hcomp o ho
          exact compat_cons_free l .write hc (by simpa using ho')
      · cases hs
    | upgrade l =>
      simp only at hs
      split at hs
      · rename_i hcond
        simp only [Bool.and_eq_true, List.all_eq_true] at hcond
        cases hs
        have ho' := hcond.2 o ho
        exact compat_cons_free l .write (compat_erase l hc) (by simpa using ho')
      · cases hs
    | rel l =>
      simp only at hs
      split at hs
      · cases hs; exact compat_erase l hc
      · cases hs

theorem step_excl {ts ts' : List Thread} {i : Nat} (hs : step ts i = some ts') (he : Excl ts) : Excl ts' := by
  unfold step at hs
  cases hti : ts[i]? with
  | none => rw [hti] at hs; cases hs
  | some t =>
    rw [hti] at hs
    simp only [Option.map_eq_some_iff] at hs
    obtain ⟨t', hst, rfl⟩ := hs
    have hlt : i < ts.length := by
      rcases Nat.lt_or_ge i ts.length with h | h
      · exact h
      · rw [List.getElem?_eq_none h] at hti; cases hti
    intro a b x y hx hy hab
    rw [List.getElem?_set] at hx hy
    by_cases hia : i = a
    · have hib : ¬ i = b := fun h => hab (hia.symm.trans h)
      simp only [hia, if_true] at hx
      simp only [hib, if_false] at hy
      have : a < ts.length := hia ▸ hlt
      simp only [this, if_true, Option.some.injEq] at hx
      subst hx
      have hyo : y ∈ ts.eraseIdx i := index_mem_eraseIdx (fun h => hib h.symm) hy
      exact stepT_compat hst hyo (he i b t y hti hy hib)
    · simp only [hia, if_false] at hx
      by_cases hib : i = b
      · simp only [hib, if_true] at hy
        have : b < ts.length := hib ▸ hlt
        simp only [this, if_true, Option.some.injEq] at hy
        subst hy
        have hxo : x ∈ ts.eraseIdx i := index_mem_eraseIdx (fun h => hia h.symm) hx
        exact (stepT_compat hst hxo (he i a t x hti hx hia)).symm
      · simp only [hib, if_false] at hy
        exact he a b x y hx hy hab

theorem stepT_disc {others : List Thread} {t t' : Thread} (hs : stepT others t = some t')
    (hd : Disc t.held t.prog) : Disc t'.held t'.prog := by
  obtain ⟨held, prog⟩ := t
  unfold stepT at hs
  cases prog with
  | nil => simp at hs
  | cons a p =>
    cases a with
    | acq l m =>
      simp only at hs
      split at hs
      · cases hs; exact hd.2
      · cases hs
    | upgrade l =>
      simp only at hs
      split at hs
      · cases hs
        obtain ⟨_, hh, hp⟩ := hd
        simp only at hh
        subst hh
        simpa [eraseLock] using hp
      · cases hs
    | rel l =>
      simp only at hs
      split at hs
      · cases hs; exact hd.2
      · cases hs

theorem step_disc {ts ts' : List Thread} {i : Nat} (hs : step ts i = some ts') (hd : AllDisc ts) : AllDisc ts' := by
  unfold step at hs
  cases hti : ts[i]? with
  | none => rw [hti] at hs; cases hs
  | some t =>
    rw [hti] at hs
    simp only [Option.map_eq_some_iff] at hs
    obtain ⟨t', hst, rfl⟩ := hs
    intro x hx
    rcases List.mem_or_eq_of_mem_set hx with h | h
    · exact hd x h
    · subst h; exact stepT_disc hst (hd t (List.mem_of_getElem? hti))

theorem disc_append : ∀ (p q : List Act) (held : Held), Disc held p → Disc [] q → Disc held (p ++ q)
  | [], q, held, hp, hq => by
    simp only [Disc] at hp
    subst hp; simpa using hq
  | .acq l m :: p, q, held, hp, hq => ⟨hp.1, disc_append p q _ hp.2 hq⟩
  | .upgrade l :: p, q, held, hp, hq => ⟨hp.1, hp.2.1, disc_append p q _ hp.2.2 hq⟩
  | .rel l :: p, q, held, hp, hq => ⟨hp.1, disc_append p q _ hp.2 hq⟩

end Aquatic.Locks
