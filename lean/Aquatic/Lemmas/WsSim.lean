/- Simulation of the WebTorrent store model by the reference tracker: announce. -/
import Aquatic.Lemmas.Ws

namespace Aquatic.Ws

open Aquatic

def toRW (h pid : Nat) (p : WPeer) : RW := ⟨h, pid, p.owner, p.seeder, p.validUntil⟩

/-- torrent `h` of the model and the reference's entries / outstanding offers of `h` agree -/
structure Agree (h : Nat) (t : Torrent) (es : List RW) (x : Exps) : Prop where
  ent : ∀ pid, (IMap.get t.peers pid).map (toRW h pid) = Ref.find es h pid
  exp : ∀ pid k, (IMap.get t.peers pid).bind (fun p => IMap.get p.expecting k) = x h pid k

structure WSim (m : WMap) (r : RefW) : Prop where
  inv : MInv m
  nodup : Ref.KeysNodup r.entries
  agree : ∀ h, Agree h (torrentAt m h) r.entries r.exps

theorem wsim_init : WSim [] {} := by
  refine ⟨⟨by simp [IMap.keys], by intro h t hg; simp [IMap.get] at hg⟩, by simp [Ref.KeysNodup], ?_⟩
  intro h
  constructor <;> intros <;> simp [torrentAt, IMap.get, Ref.find]

/-- replacing torrent `h` by one that agrees with new reference data that differs only at `h` -/
theorem wsim_insert {m : WMap} {r : RefW} (hs : WSim m r) (h : Nat) {t' : Torrent} {es' : List RW} {x' : Exps}
    (ht : TInv t') (hn : Ref.KeysNodup es') (ha : Agree h t' es' x')
    (hoe : ∀ h' pid, h' ≠ h → Ref.find es' h' pid = Ref.find r.entries h' pid)
    (hox : ∀ h' pid k, h' ≠ h → x' h' pid k = r.exps h' pid k) :
    WSim (IMap.insert m h t') ⟨es', x'⟩ := by
  refine ⟨minv_insert hs.inv h ht, hn, ?_⟩
  intro h'
  rw [torrentAt_insert]
  by_cases e : h = h'
  · subst e; simpa using ha
  · simp only [e, if_false]
    have := hs.agree h'
    exact ⟨fun pid => by rw [this.ent, hoe h' pid (Ne.symm e)], fun pid k => by rw [this.exp, hox h' pid k (Ne.symm e)]⟩

/-! ### counts -/

theorem get_map_val {β γ : Type} (l : List (Nat × β)) (f : Nat → β → γ) (k : Nat) :
    IMap.get (l.map (fun e => (e.1, f e.1 e.2))) k = (IMap.get l k).map (f k) := by
  induction l with
  | nil => rfl
  | cons a t ih =>
    obtain ⟨k0, v0⟩ := a
    by_cases e : k0 = k
    · subst e; simp [IMap.get]
    · simp [IMap.get, e, ih]

theorem assoc_perm {h : Nat} {t : Torrent} {es : List RW} (ht : TInv t) (hn : Ref.KeysNodup es)
    (ha : ∀ pid, (IMap.get t.peers pid).map (toRW h pid) = Ref.find es h pid) :
    (t.peers.map (fun e => (e.1, toRW h e.1 e.2))).Perm (Ref.torrentAssoc es h) := by
  apply IMap.perm_of_get_eq
  · have : IMap.keys (t.peers.map (fun e => (e.1, toRW h e.1 e.2))) = IMap.keys t.peers := by
      simp [IMap.keys, List.map_map, Function.comp]
    rw [this]; exact ht.nodup
  · exact Ref.torrentAssoc_nodup hn h
  · intro k
    rw [get_map_val t.peers (toRW h) k, ha, Ref.get_torrentAssoc]

theorem counts_of_agree {h : Nat} {t : Torrent} {es : List RW} (ht : TInv t) (hn : Ref.KeysNodup es)
    (ha : ∀ pid, (IMap.get t.peers pid).map (toRW h pid) = Ref.find es h pid) :
    t.numSeeders = Ref.complete es h ∧ t.peers.length = (Ref.ofTorrent es h).length ∧
    csub t.peers.length t.numSeeders = .ok (Ref.incomplete es h) := by
  have hp := assoc_perm ht hn ha
  have h1 : t.numSeeders = Ref.complete es h := by
    rw [ht.count]
    have := hp.countP_eq (fun e => e.2.seeder)
    simp only [Ref.torrentAssoc, List.countP_map] at this
    simp only [seedCount, Ref.complete]
    refine Eq.trans ?_ (this.trans ?_)
    · apply List.countP_congr; intro a _; simp [toRW, Function.comp]
    · apply List.countP_congr; intro a _; simp [Function.comp]
  have h2 : t.peers.length = (Ref.ofTorrent es h).length := by
    have := hp.length_eq
    simpa [Ref.torrentAssoc] using this
  refine ⟨h1, h2, ?_⟩
  have h3 : Ref.complete es h + Ref.incomplete es h = (Ref.ofTorrent es h).length := by
    simp only [Ref.complete, Ref.incomplete]
    have := List.length_eq_countP_add_countP (fun e : RW => e.seeder) (l := Ref.ofTorrent es h)
    simp only [Bool.not_eq_true] at this
    rw [this]
    congr 1
    apply List.countP_congr; intro a _; cases a.seeder <;> simp
  unfold csub
  rw [if_pos (by omega)]
  congr 1
  omega

theorem others_length {h : Nat} {t : Torrent} {es : List RW} (ht : TInv t) (hn : Ref.KeysNodup es)
    (ha : ∀ pid, (IMap.get t.peers pid).map (toRW h pid) = Ref.find es h pid) (sender : Nat) :
    ((IMap.keys t.peers).filter (fun x => !decide (x = sender))).length =
      ((Ref.ofTorrent es h).filter (fun e => !decide (e.pid = sender))).length := by
  have hp := (assoc_perm ht hn ha).map (·.1)
  have hp2 := (hp.filter (fun x => !decide (x = sender))).length_eq
  simp only [List.map_map, Ref.torrentAssoc] at hp2
  have e1 : (t.peers.map ((·.1) ∘ fun e => (e.1, toRW h e.1 e.2))) = IMap.keys t.peers := by
    simp [IMap.keys, Function.comp]
  rw [e1] at hp2
  rw [hp2]
  have : ((·.1) ∘ fun e : RW => (e.pid, e)) = fun e : RW => e.pid := rfl
  rw [this, List.filter_map, List.length_map]
  rfl

end Aquatic.Ws

namespace Aquatic.Ws

/-! ### offers: the model's table against the reference's -/

def expAfterR (f : ExpKey → Option Nat) (vu : Nat) : List ((Nat × Nat) × Nat) → ExpKey → Option Nat
  | [] => f
  | (off, r) :: t => expAfterR (fun k => if k = (r, off.1) then some vu else f k) vu t

theorem get_recordOffers' (exp : List (ExpKey × Nat)) (vu : Nat) (pairs : List ((Nat × Nat) × (Nat × ConnId))) (k : ExpKey) :
    IMap.get (recordOffers exp vu pairs) k = expAfterR (IMap.get exp) vu (pairs.map (fun x => (x.1, x.2.1))) k := by
  induction pairs generalizing exp with
  | nil => rfl
  | cons x t ih =>
    obtain ⟨off, r⟩ := x
    simp only [recordOffers, List.map_cons, expAfterR]
    rw [ih]
    congr 1
    funext k'
    rw [IMap.get_insert]
    by_cases e : k' = (r.1, off.1)
    · subst e; simp
    · simp [e, Ne.symm e]

theorem ref_recordOffers_eq (x : Exps) (h pid vu : Nat) (pairs : List ((Nat × Nat) × Nat)) (h' p' : Nat) (k : ExpKey) :
    Ref.recordOffers x h pid vu pairs h' p' k =
      if h' = h ∧ p' = pid then expAfterR (x h pid) vu pairs k else x h' p' k := by
  induction pairs generalizing x with
  | nil => simp only [Ref.recordOffers, expAfterR]; split <;> simp_all
  | cons a t ih =>
    obtain ⟨off, rcv⟩ := a
    simp only [Ref.recordOffers, expAfterR]
    rw [ih]
    by_cases c : h' = h ∧ p' = pid
    · simp only [c, and_self, if_true]
      congr 1
      funext k'
      simp [Ref.setExp]
    · simp only [c, if_false]
      simp only [Ref.setExp]
      split
      · rename_i hc; exact absurd ⟨hc.1, hc.2.1⟩ c
      · rfl

theorem zip_withOwners (peers : Peers) (offers : List (Nat × Nat)) (recv : List Nat)
    (h : ∀ r ∈ recv, (IMap.get peers r).isSome) :
    (offers.zip (withOwners peers recv)).map (fun x => (x.1, x.2.1)) = offers.zip recv := by
  have := withOwners_fst peers recv h
  conv => rhs; rw [← this]
  rw [List.zip_map_right]
  simp [List.map_map, Function.comp, Prod.map]

theorem offerMsgs_eq (h sender : Nat) (peers : Peers) (es : List RW)
    (ha : ∀ pid, (IMap.get peers pid).map (toRW h pid) = Ref.find es h pid) :
    ∀ (recv : List Nat) (offers : List (Nat × Nat)), (∀ r ∈ recv, (IMap.get peers r).isSome) →
      offerMsgs h sender (offers.zip (withOwners peers recv)) = Ref.offerMsgs es h sender (offers.zip recv)
  | [], offers, _ => by simp [withOwners, offerMsgs, Ref.offerMsgs]
  | r :: rt, [], _ => by simp [offerMsgs, Ref.offerMsgs]
  | r :: rt, o :: ot, hall => by
    obtain ⟨p, hp⟩ := Option.isSome_iff_exists.mp (hall r List.mem_cons_self)
    have ih := offerMsgs_eq h sender peers es ha rt ot (fun x hx => hall x (List.mem_cons_of_mem _ hx))
    have hown : Ref.ownerOf es h r = some p.owner := by
      simp [Ref.ownerOf, ← ha r, hp, toRW]
    simp only [withOwners, List.filterMap_cons, hp, Option.map_some, List.zip_cons_cons, offerMsgs, List.map_cons,
      Ref.offerMsgs, hown] at ih ⊢
    rw [ih]

end Aquatic.Ws

namespace Aquatic.Ws

/-! ### the offers / answer part of an announce, at the level of one torrent -/

theorem agree_setExpecting {h : Nat} {t : Torrent} {es : List RW} {x x' : Exps} (ha : Agree h t es x)
    {pid : Nat} {p : WPeer} (hg : IMap.get t.peers pid = some p) (e' : List (ExpKey × Nat))
    (hx : ∀ pid' k, x' h pid' k = if pid' = pid then IMap.get e' k else x h pid' k) :
    Agree h ⟨IMap.insert t.peers pid { p with expecting := e' }, t.numSeeders⟩ es x' := by
  constructor
  · intro pid'
    rw [IMap.get_insert]
    by_cases e : pid = pid'
    · subst e; rw [← ha.ent, hg]; simp [toRW]
    · simp only [e, if_false]; exact ha.ent pid'
  · intro pid' k
    rw [IMap.get_insert, hx]
    by_cases e : pid = pid'
    · subst e; simp
    · simp only [e, Ne.symm e, if_false]; exact ha.exp pid' k

theorem offersPart_sim (cfg : WsCfg) (t1 : Torrent) (es1 : List RW) (x1 : Exps) (req : AnnReq) (now o1 o2 : Nat)
    (ht1 : TInv t1) (hn1 : Ref.KeysNodup es1) (ha1 : Agree req.hash t1 es1 x1) {p1 : WPeer}
    (hg1 : IMap.get t1.peers req.pid = some p1)
    (ho : ∀ offers, req.offers = some offers →
      t1.peers.length ≤ min offers.length cfg.maxOffers + 1 ∨
      wsOffsetsOk t1.peers.length (min offers.length cfg.maxOffers) o1 o2) :
    ∃ t2 m1 recv, offersPart cfg t1 now req o1 o2 = .ok (t2, m1) ∧ TInv t2 ∧
      Agree req.hash t2 es1 (Ref.recordOffers x1 req.hash req.pid (validUntilNew now cfg.maxOfferAge) ((req.offers.getD []).zip recv)) ∧
      m1 = Ref.offerMsgs es1 req.hash req.pid ((req.offers.getD []).zip recv) ∧
      Ref.recvOk cfg es1 req recv := by
  unfold offersPart
  cases hoff : req.offers with
  | none =>
    refine ⟨t1, [], [], rfl, ht1, ?_, ?_, ?_⟩
    · simpa [Ref.recordOffers] using ha1
    · simp [Ref.offerMsgs]
    · simp [Ref.recvOk, hoff]
  | some offers =>
    obtain ⟨t2, m1, recv, hok, ht2, hout⟩ := handleOffers_spec cfg t1 now req.hash req.pid offers o1 o2 ht1 hg1 (ho offers hoff)
    have hstored : ∀ r ∈ recv, (IMap.get t1.peers r).isSome := by
      intro r hr
      have := (hout.sub.subset hr)
      rw [List.mem_filter] at this
      exact IMap.get_isSome.mpr this.1
    refine ⟨t2, m1, recv, hok, ht2, ?_, ?_, ?_⟩
    · rw [hout.peers]
      apply agree_setExpecting ha1 hg1
      intro pid' k
      simp only [Option.getD_some]
      rw [ref_recordOffers_eq, get_recordOffers', zip_withOwners _ _ _ hstored]
      by_cases e : pid' = req.pid
      · subst e
        simp only [and_self, if_true]
        congr 1
        funext k'
        have := ha1.exp req.pid k'
        rw [hg1] at this
        simpa using this.symm
      · simp [e]
    · rw [hout.msgs]
      simp only [Option.getD_some]
      exact offerMsgs_eq req.hash req.pid t1.peers es1 ha1.ent recv offers hstored
    · refine ⟨hout.nodup, hout.notSender, ?_, ?_⟩
      · intro x hx
        rw [← ha1.ent x]
        simpa using hstored x hx
      · rw [hoff] at *
        simp only [Option.getD_some]
        rw [hout.len, others_length ht1 hn1 ha1.ent]

theorem answerPart_sim (t2 : Torrent) (es1 : List RW) (x2 : Exps) (conn : ConnId) (req : AnnReq)
    (ht2 : TInv t2) (ha2 : Agree req.hash t2 es1 x2) :
    TInv (answerPart t2 conn req).1 ∧
    Agree req.hash (answerPart t2 conn req).1 es1 (Ref.answerPart es1 x2 conn req).1 ∧
    (answerPart t2 conn req).2 = (Ref.answerPart es1 x2 conn req).2 ∧
    (∀ h' pid k, h' ≠ req.hash → (Ref.answerPart es1 x2 conn req).1 h' pid k = x2 h' pid k) := by
  unfold answerPart Ref.answerPart
  cases hans : req.answer with
  | none => exact ⟨ht2, ha2, rfl, fun _ _ _ _ => rfl⟩
  | some a =>
    obtain ⟨toPid, oid, payload⟩ := a
    simp only
    rcases handleAnswer_spec t2 conn req.hash req.pid toPid oid payload ht2 with
      ⟨hg, heq⟩ | ⟨r, hg, hx, heq⟩ | ⟨r, vu, hg, hx, heq, hinv⟩
    · have hf : Ref.find es1 req.hash toPid = none := by rw [← ha2.ent, hg]; rfl
      rw [heq, hf]
      exact ⟨ht2, ha2, rfl, fun _ _ _ _ => rfl⟩
    · have hf : Ref.find es1 req.hash toPid = some (toRW req.hash toPid r) := by rw [← ha2.ent, hg]; rfl
      have hxx : x2 req.hash toPid (req.pid, oid) = none := by rw [← ha2.exp, hg]; simpa using hx
      rw [heq, hf]
      simp only [hxx]
      exact ⟨ht2, ha2, trivial, fun _ _ _ _ => trivial⟩
    · have hf : Ref.find es1 req.hash toPid = some (toRW req.hash toPid r) := by rw [← ha2.ent, hg]; rfl
      have hxx : x2 req.hash toPid (req.pid, oid) = some vu := by rw [← ha2.exp, hg]; simpa using hx
      rw [heq, hf]
      simp only [hxx]
      refine ⟨hinv, ?_, by simp [toRW], ?_⟩
      · apply agree_setExpecting ha2 hg
        intro pid' k
        simp only [Ref.setExp]
        by_cases e : pid' = toPid
        · subst e
          rw [IMap.get_swapRemove _ _ (ht2.expNodup pid' r hg)]
          by_cases e2 : k = (req.pid, oid)
          · simp [e2]
          · have := ha2.exp pid' k
            rw [hg] at this
            simp only [Option.bind_some] at this
            simp [e2, this]
        · simp [e]
      · intro h' pid k hne
        simp [Ref.setExp, hne]

end Aquatic.Ws

namespace Aquatic.Ws

/-! ### announce -/

/-- the non-ignored announce on its torrent: agrees with the reference's `announceCore` -/
theorem announceLive_sim (cfg : WsCfg) (t : Torrent) (r : RefW) (conn : ConnId) (req : AnnReq) (now o1 o2 : Nat)
    (ht : TInv t) (hnd : Ref.KeysNodup r.entries) (hA : Agree req.hash t r.entries r.exps)
    (hown : ∀ p, IMap.get t.peers req.pid = some p → p.owner = conn)
    (ho : ∀ t1 offers vu, insertOrUpdate t conn req.pid (wsStatus req.stopped req.left) vu = .ok t1 →
      req.offers = some offers →
      t1.peers.length ≤ min offers.length cfg.maxOffers + 1 ∨
      wsOffsetsOk t1.peers.length (min offers.length cfg.maxOffers) o1 o2) :
    ∃ t3 msgs recv, announceLive cfg t conn req now o1 o2 = .ok (t3, msgs) ∧ TInv t3 ∧
      Ref.KeysNodup (Ref.announceCore cfg r conn req now recv).1.entries ∧
      Agree req.hash t3 (Ref.announceCore cfg r conn req now recv).1.entries (Ref.announceCore cfg r conn req now recv).1.exps ∧
      msgs = (Ref.announceCore cfg r conn req now recv).2 ∧
      (∀ h' pid, h' ≠ req.hash → Ref.find (Ref.announceCore cfg r conn req now recv).1.entries h' pid = Ref.find r.entries h' pid) ∧
      (∀ h' pid k, h' ≠ req.hash → (Ref.announceCore cfg r conn req now recv).1.exps h' pid k = r.exps h' pid k) ∧
      (req.stopped = false → Ref.recvOk cfg (Ref.announceCore cfg r conn req now recv).1.entries req recv) := by
  obtain ⟨t1, hiu, ht1, hget1⟩ := insertOrUpdate_spec t conn req.pid
    (wsStatus req.stopped req.left) (validUntilNew now cfg.maxPeerAge) ht
  obtain ⟨st, hst⟩ : ∃ st, wsStatus req.stopped req.left = st := ⟨_, rfl⟩
  unfold announceLive
  rw [hiu]
  simp only
  by_cases hstop : st = .stopped
  · subst hstop
    have hstopped : req.stopped = true := by
      unfold wsStatus at hst; split at hst
      · assumption
      · split at hst <;> cases hst
    have hag : Agree req.hash t1 (Ref.rest r.entries req.hash req.pid) (Ref.clearExps r.exps req.hash req.pid) := by
      constructor
      · intro pid'
        rw [hget1, Ref.find_rest, hst]
        by_cases e : pid' = req.pid
        · simp [e, updated]
        · simp [e]; exact hA.ent pid'
      · intro pid' k
        rw [hget1, hst]
        by_cases e : pid' = req.pid
        · simp [e, updated, Ref.clearExps]
        · simp [e, Ref.clearExps]; exact hA.exp pid' k
    have hnd' := Ref.nodup_rest req.hash req.pid hnd
    obtain ⟨c1, _, c3⟩ := counts_of_agree ht1 hnd' hag.ent
    rw [if_pos hst]
    simp only [c3, List.nil_append]
    refine ⟨_, _, [], rfl, ht1, ?_, ?_, ?_, ?_, ?_, ?_⟩
    · simpa [Ref.announceCore, hst] using hnd'
    · simpa [Ref.announceCore, hst] using hag
    · simp [Ref.announceCore, hst, c1]
    · intro h' pid hne; simp only [Ref.announceCore, hst]; rw [Ref.find_rest]; simp [hne]
    · intro h' pid k hne; simp [Ref.announceCore, hst, Ref.clearExps, hne]
    · intro hns; rw [hstopped] at hns; cases hns
  · have hne : ¬ wsStatus req.stopped req.left = .stopped := by rw [hst]; exact hstop
    rw [if_neg hne]
    -- the announcer's entry after the update
    have hold : updated (IMap.get t.peers req.pid) conn st (validUntilNew now cfg.maxPeerAge) =
        some ⟨conn, decide (st = .seeding), validUntilNew now cfg.maxPeerAge,
          ((IMap.get t.peers req.pid).map (·.expecting)).getD []⟩ := by
      cases hg : IMap.get t.peers req.pid with
      | none => cases st <;> simp_all [updated]
      | some p => cases st <;> simp_all [updated, hown p hg]
    have hg1 := hget1 req.pid
    rw [if_pos rfl, hst, hold] at hg1
    let e1 : RW := ⟨req.hash, req.pid, conn, decide (st = .seeding), validUntilNew now cfg.maxPeerAge⟩
    have hes1 : Ref.KeysNodup (Ref.rest r.entries req.hash req.pid ++ [e1]) := Ref.nodup_rest_append e1 hnd
    have hag1 : Agree req.hash t1 (Ref.rest r.entries req.hash req.pid ++ [e1]) r.exps := by
      constructor
      · intro pid'
        rw [hget1, Ref.find_rest_append r.entries e1]
        by_cases e : pid' = req.pid
        · rw [e, if_pos rfl, hst, hold]; simp [toRW, e1]
        · simp [e, e1]; exact hA.ent pid'
      · intro pid' k
        rw [hget1]
        by_cases e : pid' = req.pid
        · rw [e, if_pos rfl, hst, hold, ← hA.exp]
          cases hg : IMap.get t.peers req.pid with
          | none => simp [IMap.get]
          | some p => simp
        · simp [e]; exact hA.exp pid' k
    obtain ⟨t2, m1, recv, hop, ht2, hag2, hm1, hrecv⟩ := offersPart_sim cfg t1 _ r.exps req now o1 o2 ht1 hes1 hag1 hg1
      (fun offers hoff => ho t1 offers _ hiu hoff)
    obtain ⟨ht3, hag3, hm2, hother⟩ := answerPart_sim t2 _ _ conn req ht2 hag2
    obtain ⟨c1, _, c3⟩ := counts_of_agree ht3 hes1 hag3.ent
    have hcore : Ref.announceCore cfg r conn req now recv =
        (⟨Ref.rest r.entries req.hash req.pid ++ [e1],
          (Ref.answerPart (Ref.rest r.entries req.hash req.pid ++ [e1])
            (Ref.recordOffers r.exps req.hash req.pid (validUntilNew now cfg.maxOfferAge) ((req.offers.getD []).zip recv)) conn req).1⟩,
         Ref.offerMsgs (Ref.rest r.entries req.hash req.pid ++ [e1]) req.hash req.pid ((req.offers.getD []).zip recv) ++
          (Ref.answerPart (Ref.rest r.entries req.hash req.pid ++ [e1])
            (Ref.recordOffers r.exps req.hash req.pid (validUntilNew now cfg.maxOfferAge) ((req.offers.getD []).zip recv)) conn req).2 ++
          [Msg.announce conn req.hash (Ref.complete (Ref.rest r.entries req.hash req.pid ++ [e1]) req.hash)
            (Ref.incomplete (Ref.rest r.entries req.hash req.pid ++ [e1]) req.hash)]) := by
      unfold Ref.announceCore
      rw [hst]
      cases st with
      | stopped => exact absurd rfl hstop
      | seeding => rfl
      | leeching => rfl
    simp only [relayPart, hop, c3]
    refine ⟨_, _, recv, rfl, ht3, ?_, ?_, ?_, ?_, ?_, ?_⟩
    · rw [hcore]; exact hes1
    · rw [hcore]; exact hag3
    · rw [hcore, hm1, hm2, c1]
    · intro h' pid hne'
      rw [hcore]
      rw [Ref.find_rest_append r.entries e1 h' pid]
      simp [e1, hne']
    · intro h' pid k hne'
      rw [hcore]
      simp only
      rw [hother h' pid k hne', ref_recordOffers_eq]; simp [hne']
    · intro _
      rw [hcore]; exact hrecv

/-! ### announce -/

/-- the two random draws are in range for the selection this announce performs (decidable form:
the number of stored peers after the update does not depend on the deadline written) -/
def AnnOffOk (cfg : WsCfg) (m : WMap) (conn : ConnId) (req : AnnReq) (o1 o2 : Nat) : Prop :=
  match req.offers, insertOrUpdate (torrentAt m req.hash) conn req.pid (wsStatus req.stopped req.left) 0 with
  | some offers, .ok t1 =>
    t1.peers.length ≤ min offers.length cfg.maxOffers + 1 ∨
    wsOffsetsOk t1.peers.length (min offers.length cfg.maxOffers) o1 o2
  | _, _ => True

instance (cfg : WsCfg) (m : WMap) (conn : ConnId) (req : AnnReq) (o1 o2 : Nat) : Decidable (AnnOffOk cfg m conn req o1 o2) := by
  unfold AnnOffOk; split <;> infer_instance

theorem insertOrUpdate_length_indep (t : Torrent) (conn : ConnId) (pid : Nat) (st : WStatus) (vu vu' : Nat) :
    (insertOrUpdate t conn pid st vu).map (fun x => x.peers.length) =
    (insertOrUpdate t conn pid st vu').map (fun x => x.peers.length) := by
  unfold insertOrUpdate
  cases IMap.get t.peers pid with
  | none => cases st <;> simp [Except.map, pure, Except.pure, IMap.length_insert]
  | some p =>
    dsimp only
    cases st with
    | stopped => generalize decSeeder t.numSeeders p.seeder = d; cases d <;> simp [Except.map, bind, Except.bind, pure, Except.pure]
    | seeding => simp [Except.map, pure, Except.pure, IMap.length_insert]
    | leeching => generalize decSeeder t.numSeeders p.seeder = d; cases d <;> simp [Except.map, bind, Except.bind, pure, Except.pure, IMap.length_insert]

theorem annOffOk_forall {cfg : WsCfg} {m : WMap} {conn : ConnId} {req : AnnReq} {o1 o2 : Nat}
    (h : AnnOffOk cfg m conn req o1 o2) :
    ∀ t1 offers vu, insertOrUpdate (torrentAt m req.hash) conn req.pid (wsStatus req.stopped req.left) vu = .ok t1 →
      req.offers = some offers →
      t1.peers.length ≤ min offers.length cfg.maxOffers + 1 ∨
      wsOffsetsOk t1.peers.length (min offers.length cfg.maxOffers) o1 o2 := by
  intro t1 offers vu hiu hoff
  have hl := insertOrUpdate_length_indep (torrentAt m req.hash) conn req.pid (wsStatus req.stopped req.left) vu 0
  rw [hiu] at hl
  unfold AnnOffOk at h
  rw [hoff] at h
  cases h0 : insertOrUpdate (torrentAt m req.hash) conn req.pid (wsStatus req.stopped req.left) 0 with
  | error e => rw [h0] at hl; simp [Except.map] at hl
  | ok t0 =>
    rw [h0] at hl h
    simp only [Except.map, Except.ok.injEq] at hl
    simp only at h
    rw [hl]; exact h

/-- the announce is not one the reference ignores -/
def Accepted (r : RefW) (conn : ConnId) (req : AnnReq) : Prop :=
  ∀ e, Ref.find r.entries req.hash req.pid = some e → e.owner = conn

theorem announce_sim (cfg : WsCfg) (m : WMap) (r : RefW) (conn : ConnId) (req : AnnReq) (now o1 o2 : Nat)
    (hs : WSim m r) (ho : AnnOffOk cfg m conn req o1 o2) :
    ∃ m' msgs recv, announce cfg m conn req now o1 o2 = .ok (m', msgs) ∧
      WSim m' (Ref.announce cfg r conn req now recv).1 ∧
      msgs = (Ref.announce cfg r conn req now recv).2 ∧
      (Accepted r conn req → req.stopped = false → Ref.recvOk cfg (Ref.announce cfg r conn req now recv).1.entries req recv) := by
  have hA := hs.agree req.hash
  have ht := tinv_torrentAt hs.inv req.hash
  have hdef : announce cfg m conn req now o1 o2 =
      if ownedByOther (torrentAt m req.hash) req.pid conn then .ok (IMap.insert m req.hash (torrentAt m req.hash), [])
      else match announceLive cfg (torrentAt m req.hash) conn req now o1 o2 with
        | .error e => .error e
        | .ok r => .ok (IMap.insert m req.hash r.1, r.2) := rfl
  rw [hdef]
  by_cases hob : ownedByOther (torrentAt m req.hash) req.pid conn = true
  · -- ignored
    rw [if_pos hob]
    unfold ownedByOther at hob
    cases hg : IMap.get (torrentAt m req.hash).peers req.pid with
    | none => simp [hg] at hob
    | some p =>
      simp only [hg, Bool.not_eq_eq_eq_not, Bool.not_true, decide_eq_false_iff_not] at hob
      have hf : Ref.find r.entries req.hash req.pid = some (toRW req.hash req.pid p) := by rw [← hA.ent, hg]; rfl
      have hra : ∀ recv, Ref.announce cfg r conn req now recv = (r, []) := by
        intro recv; simp [Ref.announce, hf, toRW, hob]
      refine ⟨_, _, [], rfl, ?_, by rw [hra], ?_⟩
      · rw [hra]
        exact wsim_insert hs req.hash ht hs.nodup hA (fun _ _ _ => rfl) (fun _ _ _ _ => rfl)
      · intro hacc; exact absurd (hacc _ hf) hob
  · rw [if_neg hob]
    have hown : ∀ p, IMap.get (torrentAt m req.hash).peers req.pid = some p → p.owner = conn := by
      intro p hg
      unfold ownedByOther at hob
      simpa [hg] using hob
    have hcore : ∀ recv, Ref.announce cfg r conn req now recv = Ref.announceCore cfg r conn req now recv := by
      intro recv
      unfold Ref.announce
      cases hf : Ref.find r.entries req.hash req.pid with
      | none => rfl
      | some e =>
        have : e.owner = conn := by
          rw [← hA.ent] at hf
          cases hg : IMap.get (torrentAt m req.hash).peers req.pid with
          | none => simp [hg] at hf
          | some p => simp [hg] at hf; subst hf; exact hown p hg
        simp [this]
    obtain ⟨t3, msgs, recv, hlive, ht3, hnd3, hag3, hmsgs, hoe, hox, hrecv⟩ :=
      announceLive_sim cfg (torrentAt m req.hash) r conn req now o1 o2 ht hs.nodup hA hown (annOffOk_forall ho)
    rw [hlive]
    refine ⟨_, _, recv, rfl, ?_, by rw [hcore]; exact hmsgs, ?_⟩
    · rw [hcore]
      exact wsim_insert hs req.hash ht3 hnd3 hag3 hoe hox
    · intro _ hns; rw [hcore]; exact hrecv hns

end Aquatic.Ws
