/-
  Torrent maps of one address family: invariant and the effect of announce,
  scrape and the two cleaning variants on the per-torrent entry lists.
-/
import Aquatic.Lemmas.PeerMap
import Aquatic.Model.Tracker

namespace Aquatic

def TMap.hashes (m : TMap) : List Nat := m.map (·.1)

def TMap.entriesOf (m : TMap) (h : Nat) : Entries :=
  match m.get h with
  | some pm => pm.entries
  | none => []

def TMap.Inv (c : Nat) (m : TMap) : Prop :=
  m.hashes.Nodup ∧ ∀ x ∈ m, x.2.Inv c

theorem TMap.inv_nil (c : Nat) : TMap.Inv c [] := by
  refine ⟨List.nodup_nil, ?_⟩
  intro x hx; cases hx

theorem TMap.get_set (m : TMap) (h : Nat) (pm : PeerMap) (h' : Nat) :
    (m.set h pm).get h' = if h' = h then some pm else m.get h' := by
  induction m with
  | nil =>
    simp only [TMap.set, TMap.get]
    by_cases e : h' = h
    · simp [e]
    · have : ¬ h = h' := fun x => e x.symm
      simp [e, this]
  | cons x t ih =>
    obtain ⟨k, v⟩ := x
    by_cases hk : k = h
    · subst hk
      simp only [TMap.set, ↓reduceIte, TMap.get]
      by_cases e : h' = k
      · simp [e]
      · have : ¬ k = h' := fun x => e x.symm
        simp [e, this]
    · simp only [TMap.set, hk, ↓reduceIte, TMap.get, ih]
      by_cases e : k = h'
      · have : ¬ h' = h := fun x => hk (e.trans x)
        simp [e, this]
      · simp [e]

theorem TMap.get_none_of_not_mem {m : TMap} {h : Nat} (hn : h ∉ m.hashes) : m.get h = none := by
  induction m with
  | nil => rfl
  | cons x t ih =>
    obtain ⟨k, v⟩ := x
    simp only [TMap.hashes, List.map_cons, List.mem_cons, not_or] at hn
    have : ¬ k = h := fun e => hn.1 e.symm
    simp only [TMap.get, this, ↓reduceIte]
    exact ih hn.2

theorem TMap.mem_of_get {m : TMap} {h : Nat} {pm : PeerMap} (hg : m.get h = some pm) : (h, pm) ∈ m := by
  induction m with
  | nil => simp [TMap.get] at hg
  | cons x t ih =>
    obtain ⟨k, v⟩ := x
    by_cases hk : k = h
    · simp only [TMap.get, hk, ↓reduceIte, Option.some.injEq] at hg
      subst hg; subst hk; exact List.mem_cons_self
    · simp only [TMap.get, hk, ↓reduceIte] at hg
      exact List.mem_cons_of_mem _ (ih hg)

theorem TMap.get_of_mem {m : TMap} {h : Nat} {pm : PeerMap} (hn : m.hashes.Nodup) (hm : (h, pm) ∈ m) :
    m.get h = some pm := by
  induction m with
  | nil => cases hm
  | cons x t ih =>
    obtain ⟨k, v⟩ := x
    simp only [TMap.hashes, List.map_cons, List.nodup_cons] at hn
    rcases List.mem_cons.mp hm with e | e
    · injection e with e1 e2
      subst e1; subst e2
      simp [TMap.get]
    · have hk : k ≠ h := by
        intro e'; subst e'
        exact hn.1 (List.mem_map_of_mem (f := (·.1)) e)
      simp only [TMap.get, hk, ↓reduceIte]
      exact ih hn.2 e

theorem TMap.mem_set {m : TMap} {h : Nat} {pm : PeerMap} {x : Nat × PeerMap} (hx : x ∈ m.set h pm) :
    x = (h, pm) ∨ x ∈ m := by
  induction m with
  | nil => simp only [TMap.set, List.mem_singleton] at hx; exact Or.inl hx
  | cons y t ih =>
    obtain ⟨k, v⟩ := y
    by_cases hk : k = h
    · simp only [TMap.set, hk, ↓reduceIte, List.mem_cons] at hx
      rcases hx with e | e
      · exact Or.inl e
      · exact Or.inr (List.mem_cons_of_mem _ e)
    · simp only [TMap.set, hk, ↓reduceIte, List.mem_cons] at hx
      rcases hx with e | e
      · exact Or.inr (e ▸ List.mem_cons_self)
      · rcases ih e with e' | e'
        · exact Or.inl e'
        · exact Or.inr (List.mem_cons_of_mem _ e')

theorem TMap.hashes_set (m : TMap) (h : Nat) (pm : PeerMap) :
    (m.set h pm).hashes = if h ∈ m.hashes then m.hashes else m.hashes ++ [h] := by
  induction m with
  | nil => simp [TMap.set, TMap.hashes]
  | cons y t ih =>
    obtain ⟨k, v⟩ := y
    by_cases hk : k = h
    · subst hk; simp [TMap.set, TMap.hashes]
    · have hk' : ¬ h = k := fun e => hk e.symm
      simp only [TMap.hashes] at ih
      simp only [TMap.set, hk, ↓reduceIte, TMap.hashes, List.map_cons, ih, List.mem_cons, hk', false_or]
      split
      · rename_i hm; simp [hm]
      · rename_i hm; simp [hm]

theorem TMap.inv_set {c : Nat} {m : TMap} (hinv : TMap.Inv c m) (h : Nat) {pm : PeerMap}
    (hpm : pm.Inv c) : TMap.Inv c (m.set h pm) := by
  refine ⟨?_, ?_⟩
  · rw [TMap.hashes_set]
    split
    · exact hinv.1
    · rename_i hn
      rw [List.nodup_append]
      refine ⟨hinv.1, by simp, ?_⟩
      intro a ha b hb
      simp only [List.mem_singleton] at hb
      subst hb
      intro e; subst e; exact hn ha
  · intro x hx
    rcases TMap.mem_set hx with e | e
    · subst e; exact hpm
    · exact hinv.2 x e

theorem TMap.inv_get {c : Nat} {m : TMap} (hinv : TMap.Inv c m) (h : Nat) :
    ((m.get h).getD (.small [])).Inv c := by
  cases hg : m.get h with
  | none => exact ⟨List.nodup_nil, Nat.zero_le _⟩
  | some pm => exact hinv.2 _ (TMap.mem_of_get hg)

theorem TMap.entriesOf_eq (m : TMap) (h : Nat) :
    m.entriesOf h = ((m.get h).getD (.small [])).entries := by
  unfold TMap.entriesOf
  cases m.get h <;> rfl

/-- `OffOk` lifted to the torrent map -/
def TMap.OffOk (m : TMap) (h : Nat) (key : Key) (n o1 o2 : Nat) : Prop :=
  Aquatic.OffOk ((m.get h).getD (.small [])) key n o1 o2

theorem TMap.announce_spec (c : Nat) (m : TMap) (h : Nat) (key : Key) (st : Status)
    (pid dl n o1 o2 : Nat) (hinv : TMap.Inv c m) (hoff : m.OffOk h key n o1 o2) :
    ∃ m' out, m.announce c h key st pid dl n o1 o2 = .ok (m', out) ∧ TMap.Inv c m' ∧
      (∀ h', (m'.entriesOf h').Perm
        (if h' = h then without (m.entriesOf h) key ++ newEntry key st pid dl else m.entriesOf h')) ∧
      out.seeders = numSeeders (without (m.entriesOf h) key) ∧
      out.seeders + out.leechers = (without (m.entriesOf h) key).length ∧
      out.removed = lookup (m.entriesOf h) key ∧
      PeersOk out.peers (keysOf (without (m.entriesOf h) key)) n := by
  obtain ⟨pm2, out, ha, hinv2, hperm, hs, hl, hrem, hpk⟩ :=
    Aquatic.announce_spec c ((m.get h).getD (.small [])) key st pid dl n o1 o2 (TMap.inv_get hinv h) hoff
  rw [← TMap.entriesOf_eq] at hperm hs hl hrem hpk
  refine ⟨m.set h pm2, out, ?_, TMap.inv_set hinv h hinv2, ?_, hs, hl, hrem, hpk⟩
  · simp [TMap.announce, ha, bind, Except.bind, pure, Except.pure]
  · intro h'
    unfold TMap.entriesOf
    rw [TMap.get_set]
    by_cases e : h' = h
    · simp only [e, ↓reduceIte]
      exact hperm
    · simp only [e, ↓reduceIte]
      exact List.Perm.refl _

theorem TMap.scrapeOne_spec (c : Nat) (m : TMap) (h : Nat) (hinv : TMap.Inv c m) :
    m.scrapeOne h = .ok (numSeeders (m.entriesOf h), (m.entriesOf h).length - numSeeders (m.entriesOf h)) := by
  unfold TMap.scrapeOne TMap.entriesOf
  cases hg : m.get h with
  | none => simp [numSeeders]
  | some pm =>
    have hi := hinv.2 _ (TMap.mem_of_get hg)
    cases pm with
    | small l =>
      simp [PeerMap.counts, PeerMap.entries, csub_ok (numSeeders_le_length l), bind, Except.bind, pure,
        Except.pure]
    | large l ns =>
      obtain ⟨_, hns⟩ := hi
      subst hns
      simp [PeerMap.counts, PeerMap.entries, csub_ok (numSeeders_le_length l), bind, Except.bind, pure,
        Except.pure]

/-! ### cleaning -/

theorem TMap.entriesOf_cons (h : Nat) (pm : PeerMap) (t : TMap) (h' : Nat) :
    TMap.entriesOf ((h, pm) :: t) h' = if h = h' then pm.entries else TMap.entriesOf t h' := by
  by_cases e : h = h' <;> simp [TMap.entriesOf, TMap.get, e]

theorem TMap.entriesOf_nil (h' : Nat) : TMap.entriesOf [] h' = [] := rfl

theorem TMap.entriesOf_of_not_mem {m : TMap} {h : Nat} (hn : h ∉ m.hashes) : m.entriesOf h = [] := by
  unfold TMap.entriesOf
  rw [TMap.get_none_of_not_mem hn]

/-- number of stored peers whose deadline is still in the future -/
def TMap.liveSum (now : Nat) : TMap → Nat
  | [] => 0
  | (_, pm) :: t => (pm.entries.filter (validE now)).length + TMap.liveSum now t

structure TMap.CleanPost (c : Nat) (m m' : TMap) (now : Nat) (allowed : Nat → Bool) : Prop where
  inv      : TMap.Inv c m'
  sub      : m'.hashes.Sublist m.hashes
  entries  : ∀ h, m'.entriesOf h = if allowed h then (m.entriesOf h).filter (validE now) else []
  nonempty : ∀ x ∈ m', x.2.entries ≠ []

theorem TMap.cleanPost_cons {c : Nat} {h : Nat} {pm pm' : PeerMap} {t t' : TMap} {now : Nat}
    {allowed : Nat → Bool} (hinv : TMap.Inv c ((h, pm) :: t)) (hpost : TMap.CleanPost c t t' now allowed)
    (hpm' : pm'.Inv c) (hent : pm'.entries = pm.entries.filter (validE now)) :
    TMap.CleanPost c ((h, pm) :: t)
      (if allowed h && !pm'.entries.isEmpty then (h, pm') :: t' else t') now allowed := by
  have hnd := hinv.1
  simp only [TMap.hashes, List.map_cons, List.nodup_cons] at hnd
  have hnt' : h ∉ t'.hashes := fun hm => hnd.1 (hpost.sub.subset hm)
  by_cases hk : (allowed h && !pm'.entries.isEmpty) = true
  · simp only [hk, ↓reduceIte]
    simp only [Bool.and_eq_true, Bool.not_eq_eq_eq_not, Bool.not_true, List.isEmpty_eq_false_iff] at hk
    refine ⟨⟨?_, ?_⟩, ?_, ?_, ?_⟩
    · simp only [TMap.hashes, List.map_cons, List.nodup_cons]
      exact ⟨hnt', hpost.inv.1⟩
    · intro x hx
      rcases List.mem_cons.mp hx with e | e
      · subst e; exact hpm'
      · exact hpost.inv.2 x e
    · simp only [TMap.hashes, List.map_cons]
      exact List.Sublist.cons_cons _ hpost.sub
    · intro h'
      rw [TMap.entriesOf_cons, TMap.entriesOf_cons]
      by_cases e : h = h'
      · subst e; simp [hk.1, hent]
      · simp only [e, ↓reduceIte]; exact hpost.entries h'
    · intro x hx
      rcases List.mem_cons.mp hx with e | e
      · subst e; exact hk.2
      · exact hpost.nonempty x e
  · have hk' : (allowed h && !pm'.entries.isEmpty) = false := by simpa using hk
    rw [hk']
    simp only [Bool.false_eq_true, ↓reduceIte]
    refine ⟨hpost.inv, ?_, ?_, hpost.nonempty⟩
    · simp only [TMap.hashes, List.map_cons]
      exact List.Sublist.cons _ hpost.sub
    · intro h'
      rw [TMap.entriesOf_cons]
      by_cases e : h = h'
      · subst e
        simp only [↓reduceIte]
        rw [TMap.entriesOf_of_not_mem hnt']
        by_cases ha : allowed h
        · simp only [ha, Bool.true_and, Bool.not_eq_eq_eq_not, Bool.not_true,
            List.isEmpty_eq_false_iff, ne_eq, Decidable.not_not] at hk
          simp [ha, ← hent, hk]
        · simp [ha]
      · simp only [e, ↓reduceIte]; exact hpost.entries h'

theorem TMap.inv_tail {c : Nat} {x : Nat × PeerMap} {t : TMap} (h : TMap.Inv c (x :: t)) : TMap.Inv c t := by
  refine ⟨?_, fun y hy => h.2 y (List.mem_cons_of_mem _ hy)⟩
  have := h.1
  simp only [TMap.hashes, List.map_cons, List.nodup_cons] at this
  exact this.2

theorem TMap.cleanUdp_spec (c : Nat) (m : TMap) (now : Nat) (allowed : Nat → Bool)
    (hinv : TMap.Inv c m) :
    ∃ m' out, m.cleanUdp c now allowed = .ok (m', out) ∧ TMap.CleanPost c m m' now allowed ∧
      out.torrents = m'.length ∧ out.peers = TMap.liveSum now m := by
  induction m with
  | nil =>
    refine ⟨[], ⟨0, 0, [], []⟩, rfl, ⟨TMap.inv_nil c, List.Sublist.refl _, ?_, ?_⟩, rfl, rfl⟩
    · intro h; simp [TMap.entriesOf_nil]
    · intro x hx; cases hx
  | cons x t ih =>
    obtain ⟨h, pm⟩ := x
    obtain ⟨t', out', hrest, hpost, htor, hpeers⟩ := ih (TMap.inv_tail hinv)
    obtain ⟨pm', hclean, hpm', hent⟩ := clean_spec c true pm now (hinv.2 _ List.mem_cons_self)
    have hle : numSeeders (pm.entries.filter (validE now)) ≤ pm'.entries.length := by
      rw [hent]; exact numSeeders_le_length _
    apply Exists.intro
    apply Exists.intro
    refine ⟨?_, TMap.cleanPost_cons hinv hpost hpm' hent, ?_, ?_⟩
    · simp only [TMap.cleanUdp, hclean, hrest, csub_ok hle, bind, Except.bind, pure, Except.pure]
      rfl
    · simp only [htor]
      split <;> simp <;> omega
    · simp only [hpeers, TMap.liveSum, hent]
      have := numSeeders_le_length (pm.entries.filter (validE now))
      omega

theorem TMap.cleanHttp_spec (c : Nat) (m : TMap) (now : Nat) (allowed : Nat → Bool)
    (hinv : TMap.Inv c m) :
    ∃ m' np, m.cleanHttp c now allowed = .ok (m', np) ∧ TMap.CleanPost c m m' now allowed := by
  induction m with
  | nil =>
    refine ⟨[], 0, rfl, ⟨TMap.inv_nil c, List.Sublist.refl _, ?_, ?_⟩⟩
    · intro h; simp [TMap.entriesOf_nil]
    · intro x hx; cases hx
  | cons x t ih =>
    obtain ⟨h, pm⟩ := x
    obtain ⟨t', np', hrest, hpost⟩ := ih (TMap.inv_tail hinv)
    obtain ⟨pm', hclean, hpm', hent⟩ := clean_spec c false pm now (hinv.2 _ List.mem_cons_self)
    have hcp := TMap.cleanPost_cons hinv hpost hpm' hent
    by_cases ha : allowed h
    · by_cases hne : pm'.entries.length > 0
      · have hk : (allowed h && !pm'.entries.isEmpty) = true := by
          have : pm'.entries ≠ [] := by intro e; rw [e] at hne; simp at hne
          simp [ha, this]
        rw [hk] at hcp
        simp only [↓reduceIte] at hcp
        refine ⟨(h, pm') :: t', pm'.entries.length + np', ?_, hcp⟩
        simp only [TMap.cleanHttp, ha, Bool.not_true, Bool.false_eq_true, ↓reduceIte, hclean, hrest,
          bind, Except.bind, pure, Except.pure, hne]
      · have hk : (allowed h && !pm'.entries.isEmpty) = false := by
          have : pm'.entries = [] := by
            cases he : pm'.entries with
            | nil => rfl
            | cons a b => rw [he] at hne; simp at hne
          simp [this]
        rw [hk] at hcp
        simp only [Bool.false_eq_true, ↓reduceIte] at hcp
        refine ⟨t', np', ?_, hcp⟩
        simp only [TMap.cleanHttp, ha, Bool.not_true, Bool.false_eq_true, ↓reduceIte, hclean, hrest,
          bind, Except.bind, pure, Except.pure, hne]
    · have hk : (allowed h && !pm'.entries.isEmpty) = false := by simp [ha]
      rw [hk] at hcp
      simp only [Bool.false_eq_true, ↓reduceIte] at hcp
      refine ⟨t', np', ?_, hcp⟩
      simp only [TMap.cleanHttp, ha, Bool.not_false, ↓reduceIte, hrest]

end Aquatic
