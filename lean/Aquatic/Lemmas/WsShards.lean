/- The reference tracker restricted to the torrents of one swarm worker; the invariant of the reference that
does not involve a store; the simulation of `n` workers by one reference. -/
import Aquatic.Model.WsShards
import Aquatic.Lemmas.WsSys
import Aquatic.Lemmas.WsSim2
import Aquatic.Lemmas.WsSim3

namespace Aquatic.Ws

open Aquatic

/-! ### the reference, seen from swarm worker `i` of `n` -/

def restrictX (n i : Nat) (x : Exps) : Exps := fun h p k => if route n h = i then x h p k else none

def restrictW (n i : Nat) (r : RefW) : RefW :=
  ⟨r.entries.filter (fun e => onW n i e.hash), restrictX n i r.exps⟩

theorem RefW.ext' {a b : RefW} (h1 : a.entries = b.entries) (h2 : ∀ h p k, a.exps h p k = b.exps h p k) : a = b := by
  cases a; cases b
  simp only at h1 h2
  subst h1
  have : ‹Exps› = ‹Exps› := rfl
  congr
  funext h p k
  exact h2 h p k

theorem find_restrict (n i : Nat) (es : List RW) (h pid : Nat) :
    Ref.find (es.filter (fun e => onW n i e.hash)) h pid = if route n h = i then Ref.find es h pid else none := by
  induction es with
  | nil => simp [Ref.find]
  | cons a t ih =>
    simp only [Ref.find] at ih ⊢
    by_cases hk : Ref.isKey h pid a = true
    · have hh : a.hash = h := ((Ref.isKey_iff h pid a).mp hk).1
      by_cases hr : route n h = i
      · have : onW n i a.hash = true := by simp [onW, hh, hr]
        simp [List.filter_cons, this, List.find?_cons, hk, hr]
      · have : onW n i a.hash = false := by simp [onW, hh, hr]
        simp only [List.filter_cons, this, hr, if_false] at ih ⊢
        simpa using ih
    · have hk' : Ref.isKey h pid a = false := by simpa using hk
      by_cases hq : onW n i a.hash = true
      · simp only [List.filter_cons, hq, if_true, List.find?_cons, hk']
        exact ih
      · have hq' : onW n i a.hash = false := by simpa using hq
        simp only [List.filter_cons, hq', List.find?_cons, hk']
        exact ih

theorem rest_restrict (n i : Nat) (es : List RW) (h pid : Nat) :
    Ref.rest (es.filter (fun e => onW n i e.hash)) h pid = (Ref.rest es h pid).filter (fun e => onW n i e.hash) := by
  simp only [Ref.rest, List.filter_filter]
  apply List.filter_congr
  intro x _
  exact Bool.and_comm _ _

theorem ofTorrent_restrict (n i : Nat) (es : List RW) (h : Nat) (hr : route n h = i) :
    Ref.ofTorrent (es.filter (fun e => onW n i e.hash)) h = Ref.ofTorrent es h := by
  simp only [Ref.ofTorrent, List.filter_filter]
  apply List.filter_congr
  intro x _
  by_cases hx : x.hash = h
  · simp [hx, onW, hr]
  · simp [hx]

theorem ofTorrent_restrict_other (n i : Nat) (es : List RW) (h : Nat) (hr : route n h ≠ i) :
    Ref.ofTorrent (es.filter (fun e => onW n i e.hash)) h = [] := by
  simp only [Ref.ofTorrent, List.filter_filter, List.filter_eq_nil_iff]
  intro x _
  by_cases hx : x.hash = h
  · simp [hx, onW, hr]
  · simp [hx]

theorem setExp_restrict (n i : Nat) (x : Exps) (h pid : Nat) (key : ExpKey) (v : Option Nat) (hr : route n h = i) :
    Ref.setExp (restrictX n i x) h pid key v = restrictX n i (Ref.setExp x h pid key v) := by
  funext h' p' k
  simp only [Ref.setExp, restrictX]
  by_cases c : h' = h ∧ p' = pid ∧ k = key
  · obtain ⟨c1, _, _⟩ := c
    subst c1
    simp [hr, *]
  · simp [c]

theorem clearExps_restrict (n i : Nat) (x : Exps) (h pid : Nat) :
    Ref.clearExps (restrictX n i x) h pid = restrictX n i (Ref.clearExps x h pid) := by
  funext h' p' k
  simp only [Ref.clearExps, restrictX]
  by_cases c : h' = h ∧ p' = pid <;> simp [c]

theorem recordOffers_restrict (n i : Nat) (h pid vu : Nat) (hr : route n h = i) :
    ∀ (pairs : List ((Nat × Nat) × Nat)) (x : Exps),
      Ref.recordOffers (restrictX n i x) h pid vu pairs = restrictX n i (Ref.recordOffers x h pid vu pairs)
  | [], _ => rfl
  | (off, r) :: t, x => by
    simp only [Ref.recordOffers]
    rw [setExp_restrict n i x h pid _ _ hr]
    exact recordOffers_restrict n i h pid vu hr t _

theorem complete_restrict (n i : Nat) (es : List RW) (h : Nat) (hr : route n h = i) :
    Ref.complete (es.filter (fun e => onW n i e.hash)) h = Ref.complete es h ∧
    Ref.incomplete (es.filter (fun e => onW n i e.hash)) h = Ref.incomplete es h := by
  simp [Ref.complete, Ref.incomplete, ofTorrent_restrict n i es h hr]

theorem offerMsgs_restrict (n i : Nat) (es : List RW) (h sender : Nat) (pairs : List ((Nat × Nat) × Nat))
    (hr : route n h = i) :
    Ref.offerMsgs (es.filter (fun e => onW n i e.hash)) h sender pairs = Ref.offerMsgs es h sender pairs := by
  simp only [Ref.offerMsgs, Ref.ownerOf, find_restrict, hr, if_true]

theorem answerPart_restrict (n i : Nat) (es : List RW) (x : Exps) (conn : ConnId) (req : AnnReq)
    (hr : route n req.hash = i) :
    Ref.answerPart (es.filter (fun e => onW n i e.hash)) (restrictX n i x) conn req =
      (restrictX n i (Ref.answerPart es x conn req).1, (Ref.answerPart es x conn req).2) := by
  unfold Ref.answerPart
  cases ha : req.answer with
  | none => rfl
  | some a =>
    obtain ⟨toPid, oid, payload⟩ := a
    simp only [find_restrict, hr, if_true]
    cases hf : Ref.find es req.hash toPid with
    | none => rfl
    | some e =>
      simp only
      have hx : restrictX n i x req.hash toPid (req.pid, oid) = x req.hash toPid (req.pid, oid) := by
        simp [restrictX, hr]
      rw [hx]
      cases hv : x req.hash toPid (req.pid, oid) with
      | none => rfl
      | some v => simp only [setExp_restrict n i x _ _ _ _ hr]

theorem announceCore_restrict (n i : Nat) (cfg : WsCfg) (r : RefW) (conn : ConnId) (req : AnnReq) (now : Nat)
    (recv : List Nat) (hr : route n req.hash = i) :
    Ref.announceCore cfg (restrictW n i r) conn req now recv =
      (restrictW n i (Ref.announceCore cfg r conn req now recv).1, (Ref.announceCore cfg r conn req now recv).2) := by
  unfold Ref.announceCore
  have hon : onW n i req.hash = true := by simp [onW, hr]
  cases hst : wsStatus req.stopped req.left with
  | stopped =>
    simp only [restrictW, rest_restrict, clearExps_restrict]
    have := complete_restrict n i (Ref.rest r.entries req.hash req.pid) req.hash hr
    rw [this.1, this.2]
  | seeding | leeching =>
    all_goals
      simp only [restrictW, rest_restrict]
      have hes : ∀ e : RW, e.hash = req.hash →
          (Ref.rest r.entries req.hash req.pid).filter (fun e => onW n i e.hash) ++ [e] =
          (Ref.rest r.entries req.hash req.pid ++ [e]).filter (fun e => onW n i e.hash) := by
        intro e he
        simp [List.filter_append, he, hon]
      rw [hes _ rfl, recordOffers_restrict n i _ _ _ hr, answerPart_restrict n i _ _ _ _ hr,
        offerMsgs_restrict n i _ _ _ _ hr]
      have hc := fun es' => (complete_restrict n i es' req.hash hr).1
      have hi := fun es' => (complete_restrict n i es' req.hash hr).2
      simp only [hc, hi]

theorem announce_restrict_same (n i : Nat) (cfg : WsCfg) (r : RefW) (conn : ConnId) (req : AnnReq) (now : Nat)
    (recv : List Nat) (hr : route n req.hash = i) :
    Ref.announce cfg (restrictW n i r) conn req now recv =
      (restrictW n i (Ref.announce cfg r conn req now recv).1, (Ref.announce cfg r conn req now recv).2) := by
  unfold Ref.announce
  have hf : Ref.find (restrictW n i r).entries req.hash req.pid = Ref.find r.entries req.hash req.pid := by
    simp [restrictW, find_restrict, hr]
  rw [hf]
  cases hq : Ref.find r.entries req.hash req.pid with
  | none => exact announceCore_restrict n i cfg r conn req now recv hr
  | some e =>
    simp only
    by_cases ho : e.owner = conn
    · simp only [ho, if_true]; exact announceCore_restrict n i cfg r conn req now recv hr
    · simp only [ho, if_false]

/-! #### other workers do not notice -/

theorem setExp_other (x : Exps) (h pid : Nat) (key : ExpKey) (v : Option Nat) (h' p' : Nat) (k : ExpKey) (hne : h' ≠ h) :
    Ref.setExp x h pid key v h' p' k = x h' p' k := by
  simp [Ref.setExp, hne]

theorem recordOffers_other (h pid vu : Nat) (h' p' : Nat) (k : ExpKey) (hne : h' ≠ h) :
    ∀ (pairs : List ((Nat × Nat) × Nat)) (x : Exps), Ref.recordOffers x h pid vu pairs h' p' k = x h' p' k
  | [], _ => rfl
  | (off, r) :: t, x => by
    simp only [Ref.recordOffers]
    rw [recordOffers_other h pid vu h' p' k hne t, setExp_other _ _ _ _ _ _ _ _ hne]

theorem answerPart_other (es : List RW) (x : Exps) (conn : ConnId) (req : AnnReq) (h' p' : Nat) (k : ExpKey)
    (hne : h' ≠ req.hash) : (Ref.answerPart es x conn req).1 h' p' k = x h' p' k := by
  unfold Ref.answerPart
  cases req.answer with
  | none => rfl
  | some a =>
    obtain ⟨toPid, oid, payload⟩ := a
    simp only
    cases Ref.find es req.hash toPid with
    | none => rfl
    | some e =>
      simp only
      cases x req.hash toPid (req.pid, oid) with
      | none => rfl
      | some v => simp only [setExp_other _ _ _ _ _ _ _ _ hne]

theorem rest_filter_other (n j : Nat) (es : List RW) (h pid : Nat) (hr : route n h ≠ j) :
    (Ref.rest es h pid).filter (fun e => onW n j e.hash) = es.filter (fun e => onW n j e.hash) := by
  simp only [Ref.rest, List.filter_filter]
  apply List.filter_congr
  intro x _
  by_cases hk : Ref.isKey h pid x = true
  · have hh : x.hash = h := ((Ref.isKey_iff h pid x).mp hk).1
    simp [hk, onW, hh, hr]
  · have : Ref.isKey h pid x = false := by simpa using hk
    simp [this]

theorem announceCore_restrict_other (n j : Nat) (cfg : WsCfg) (r : RefW) (conn : ConnId) (req : AnnReq) (now : Nat)
    (recv : List Nat) (hr : route n req.hash ≠ j) :
    restrictW n j (Ref.announceCore cfg r conn req now recv).1 = restrictW n j r := by
  have hoff : onW n j req.hash = false := by simp [onW, hr]
  unfold Ref.announceCore
  cases hst : wsStatus req.stopped req.left with
  | stopped =>
    apply RefW.ext'
    · simp only [restrictW]; exact rest_filter_other n j _ _ _ hr
    · intro h p k
      simp only [restrictW, restrictX, Ref.clearExps]
      by_cases c : route n h = j
      · have : h ≠ req.hash := fun e => hr (e ▸ c)
        simp [c, this]
      · simp [c]
  | seeding | leeching =>
    all_goals
      apply RefW.ext'
      · simp only [restrictW, List.filter_append, List.filter_cons, hoff, List.filter_nil]
        simp only [Bool.false_eq_true, if_false, List.append_nil]
        exact rest_filter_other n j _ _ _ hr
      · intro h p k
        simp only [restrictW, restrictX]
        by_cases c : route n h = j
        · have hne : h ≠ req.hash := fun e => hr (e ▸ c)
          simp only [c, if_true]
          rw [answerPart_other _ _ _ _ _ _ _ hne, recordOffers_other _ _ _ _ _ _ hne]
        · simp [c]

theorem announce_restrict_other (n j : Nat) (cfg : WsCfg) (r : RefW) (conn : ConnId) (req : AnnReq) (now : Nat)
    (recv : List Nat) (hr : route n req.hash ≠ j) :
    restrictW n j (Ref.announce cfg r conn req now recv).1 = restrictW n j r := by
  unfold Ref.announce
  cases Ref.find r.entries req.hash req.pid with
  | none => exact announceCore_restrict_other n j cfg r conn req now recv hr
  | some e =>
    simp only
    by_cases ho : e.owner = conn
    · simp only [ho, if_true]; exact announceCore_restrict_other n j cfg r conn req now recv hr
    · simp only [ho, if_false]

/-! #### close and clean -/

theorem close_restrict (n i : Nat) (r : RefW) (conn : ConnId) :
    Ref.close (restrictW n i r) conn = restrictW n i (Ref.close r conn) := by
  apply RefW.ext'
  · simp only [Ref.close, restrictW, List.filter_filter]
    apply List.filter_congr
    intro x _
    exact Bool.and_comm _ _
  · intro h p k
    simp only [Ref.close, restrictW, find_restrict]
    by_cases c : route n h = i
    · simp only [c, if_true, restrictX]
    · simp only [c, if_false, restrictX]

theorem clean_restrict (n i : Nat) (r : RefW) (now : Nat) (allowed : Nat → Bool) :
    Ref.clean (restrictW n i r) now allowed = restrictW n i (Ref.clean r now allowed) := by
  apply RefW.ext'
  · simp only [Ref.clean, restrictW, List.filter_filter]
    apply List.filter_congr
    intro x _
    exact Bool.and_comm _ _
  · intro h p k
    simp only [Ref.clean, restrictW, find_restrict]
    by_cases c : route n h = i
    · simp only [c, if_true, restrictX]
    · simp only [c, if_false, restrictX]

/-- the reference after swarm worker `i` alone ran its cleaning pass -/
def cleanOn (n i : Nat) (r : RefW) (now : Nat) (allowed : Nat → Bool) : RefW :=
  ⟨r.entries.filter (fun e => !onW n i e.hash || Ref.keep now allowed e),
   fun h p k => if route n h = i then (Ref.clean r now allowed).exps h p k else r.exps h p k⟩

theorem cleanOn_restrict_same (n i : Nat) (r : RefW) (now : Nat) (allowed : Nat → Bool) :
    restrictW n i (cleanOn n i r now allowed) = restrictW n i (Ref.clean r now allowed) := by
  apply RefW.ext'
  · simp only [cleanOn, Ref.clean, restrictW, List.filter_filter]
    apply List.filter_congr
    intro x _
    cases onW n i x.hash <;> simp
  · intro h p k
    simp only [cleanOn, restrictW, restrictX]
    by_cases c : route n h = i <;> simp [c]

theorem cleanOn_restrict_other (n i j : Nat) (r : RefW) (now : Nat) (allowed : Nat → Bool) (hne : j ≠ i) :
    restrictW n j (cleanOn n i r now allowed) = restrictW n j r := by
  apply RefW.ext'
  · simp only [cleanOn, restrictW, List.filter_filter]
    apply List.filter_congr
    intro x _
    by_cases c : route n x.hash = j
    · simp [onW, c, hne]
    · simp [onW, c]
  · intro h p k
    simp only [cleanOn, restrictW, restrictX]
    by_cases c : route n h = j
    · simp [c, hne]
    · simp [c]

/-! ### reference-side invariant (no store involved): keys distinct, one book per connection, every entry
recorded in its owner's book -/

structure RefInv (rs : RefSys) : Prop where
  nodup : Ref.KeysNodup rs.w.entries
  booksNodup : (IMap.keys rs.books).Nodup
  bookNodup : ∀ c, (IMap.keys (rs.bookOf c)).Nodup
  covers : ∀ e ∈ rs.w.entries, IMap.get (rs.bookOf e.owner) e.hash = some e.pid

theorem refInv_of_sysSim {s : Sys} {rs : RefSys} (h : SysSim s rs) : RefInv rs :=
  ⟨h.sim.nodup, h.booksNodup, h.bookNodup, h.covers⟩

theorem nodup_announceCore (cfg : WsCfg) (r : RefW) (conn : ConnId) (req : AnnReq) (now : Nat) (recv : List Nat)
    (hn : Ref.KeysNodup r.entries) : Ref.KeysNodup (Ref.announceCore cfg r conn req now recv).1.entries := by
  unfold Ref.announceCore
  cases wsStatus req.stopped req.left with
  | stopped => exact Ref.nodup_rest _ _ hn
  | seeding => exact Ref.nodup_rest_append (⟨req.hash, req.pid, conn, _, _⟩ : RW) hn
  | leeching => exact Ref.nodup_rest_append (⟨req.hash, req.pid, conn, _, _⟩ : RW) hn

theorem nodup_announce (cfg : WsCfg) (r : RefW) (conn : ConnId) (req : AnnReq) (now : Nat) (recv : List Nat)
    (hn : Ref.KeysNodup r.entries) : Ref.KeysNodup (Ref.announce cfg r conn req now recv).1.entries := by
  unfold Ref.announce
  cases Ref.find r.entries req.hash req.pid with
  | none => exact nodup_announceCore cfg r conn req now recv hn
  | some e =>
    simp only
    by_cases ho : e.owner = conn
    · simp only [ho, if_true]; exact nodup_announceCore cfg r conn req now recv hn
    · simp only [ho, if_false]; exact hn

theorem refInv_announce {rs : RefSys} (cfg : WsCfg) (h : RefInv rs) (conn : ConnId) (req : AnnReq) (now : Nat)
    (recv : List Nat) (hbook : ∀ pid', IMap.get (rs.bookOf conn) req.hash = some pid' → pid' = req.pid) :
    RefInv ⟨(Ref.announce cfg rs.w conn req now recv).1, IMap.insert rs.books conn (bookAfter (rs.bookOf conn) req)⟩ := by
  refine ⟨nodup_announce cfg rs.w conn req now recv h.nodup, IMap.nodup_insert _ _ h.booksNodup, ?_, ?_⟩
  · intro c
    simp only [RefSys.bookOf]
    rw [bookOf_insert]
    split
    · exact bookAfter_nodup req (h.bookNodup conn)
    · exact h.bookNodup c
  · -- every entry is recorded in its owner's book
    intro e he
    have hbk : ∀ c, (⟨(Ref.announce cfg rs.w conn req now recv).1, IMap.insert rs.books conn (bookAfter (rs.bookOf conn) req)⟩ : RefSys).bookOf c =
        if conn = c then bookAfter (rs.bookOf conn) req else rs.bookOf c := by
      intro c; simp only [RefSys.bookOf]; rw [bookOf_insert]
    rw [hbk]
    -- where does `e` come from?
    have hcases : (e ∈ rs.w.entries ∧ ¬ (e.hash = req.hash ∧ e.pid = req.pid)) ∨
        (e ∈ rs.w.entries ∧ e.hash = req.hash ∧ e.pid = req.pid ∧ e.owner ≠ conn) ∨
        (e.hash = req.hash ∧ e.pid = req.pid ∧ e.owner = conn ∧ req.stopped = false) := by
      simp only at he
      unfold Ref.announce at he
      have hcore : e ∈ (Ref.announceCore cfg rs.w conn req now recv).1.entries →
          (e ∈ rs.w.entries ∧ ¬ (e.hash = req.hash ∧ e.pid = req.pid)) ∨
          (e.hash = req.hash ∧ e.pid = req.pid ∧ e.owner = conn ∧ req.stopped = false) := by
        intro hm
        unfold Ref.announceCore at hm
        have hrest : ∀ x, x ∈ Ref.rest rs.w.entries req.hash req.pid → x ∈ rs.w.entries ∧ ¬ (x.hash = req.hash ∧ x.pid = req.pid) := by
          intro x hx
          simp only [Ref.rest, List.mem_filter, Bool.not_eq_eq_eq_not, Bool.not_true] at hx
          refine ⟨hx.1, ?_⟩
          intro hk
          have := (Ref.isKey_iff req.hash req.pid x).mpr hk
          rw [this] at hx; exact Bool.noConfusion hx.2
        cases hst : wsStatus req.stopped req.left with
        | stopped => rw [hst] at hm; exact .inl (hrest e hm)
        | seeding | leeching =>
          all_goals
            rw [hst] at hm
            simp only [List.mem_append, List.mem_singleton] at hm
            rcases hm with hm | hm
            · exact .inl (hrest e hm)
            · refine .inr ?_
              have hns : req.stopped = false := by
                unfold wsStatus at hst
                cases hq : req.stopped
                · rfl
                · simp [hq] at hst
              subst hm
              exact ⟨rfl, rfl, rfl, hns⟩
      cases hf : Ref.find rs.w.entries req.hash req.pid with
      | none => rw [hf] at he; rcases hcore he with x | x; exact .inl x; exact .inr (.inr x)
      | some e0 =>
        rw [hf] at he
        simp only at he
        by_cases hown : e0.owner = conn
        · rw [if_pos hown] at he
          rcases hcore he with x | x; exact .inl x; exact .inr (.inr x)
        · rw [if_neg hown] at he
          by_cases hk : e.hash = req.hash ∧ e.pid = req.pid
          · right; left
            have := Ref.find_of_mem h.nodup he
            rw [hk.1, hk.2, hf] at this
            cases this
            exact ⟨he, hk.1, hk.2, hown⟩
          · exact .inl ⟨he, hk⟩
    rcases hcases with ⟨hmem, hnk⟩ | ⟨hmem, hh, hp, hown⟩ | ⟨hh, hp, hown, hns⟩
    · have hcov := h.covers e hmem
      by_cases ec : conn = e.owner
      · rw [if_pos ec, get_bookAfter req (h.bookNodup conn)]
        rw [← ec] at hcov
        by_cases eh : e.hash = req.hash
        · exfalso
          rw [eh] at hcov
          exact hnk ⟨eh, (hbook _ hcov)⟩
        · simp [eh, hcov]
      · rw [if_neg ec]; exact hcov
    · rw [if_neg (fun x => hown x.symm)]; exact h.covers e hmem
    · rw [if_pos hown.symm, get_bookAfter req (h.bookNodup conn), hh, hp]
      simp [hns]

theorem refInv_close {rs : RefSys} (h : RefInv rs) (conn : ConnId) : RefInv (refClose rs conn) := by
  have hb : ∀ c, c ≠ conn → (refClose rs conn).bookOf c = rs.bookOf c := by
    intro c hne
    simp only [refClose, RefSys.bookOf]
    rw [IMap.get_swapRemove _ _ h.booksNodup]
    simp [hne]
  have hb0 : (refClose rs conn).bookOf conn = [] := by
    simp only [refClose, RefSys.bookOf]
    rw [IMap.get_swapRemove _ _ h.booksNodup]
    simp
  refine ⟨Ref.nodup_filter _ h.nodup, IMap.nodup_swapRemove _ h.booksNodup, ?_, ?_⟩
  · intro c
    by_cases e : c = conn
    · rw [e, hb0]; simp [IMap.keys]
    · rw [hb c e]; exact h.bookNodup c
  · intro e he
    simp only [refClose, Ref.close, List.mem_filter, Bool.not_eq_eq_eq_not, Bool.not_true,
      decide_eq_false_iff_not] at he
    rw [hb e.owner he.2]
    exact h.covers e he.1

theorem refInv_filter {rs : RefSys} (h : RefInv rs) (q : RW → Bool) (x : Exps) :
    RefInv ⟨⟨rs.w.entries.filter q, x⟩, rs.books⟩ :=
  ⟨Ref.nodup_filter _ h.nodup, h.booksNodup, h.bookNodup, fun e he => h.covers e (List.mem_filter.mp he).1⟩

/-- every swarm worker simulates its share of ONE reference tracker -/
structure ShSim (n : Nat) (s : ShSys) (rs : RefSys) : Prop where
  len : s.ms.length = n
  sim : ∀ i (hi : i < s.ms.length), WSim s.ms[i] (restrictW n i rs.w)
  books : s.books = rs.books
  inv : RefInv rs

theorem restrictW_init (n i : Nat) : restrictW n i {} = {} := by
  apply RefW.ext'
  · rfl
  · intro h p k; simp [restrictW, restrictX]

theorem shSim_init (n : Nat) : ShSim n ⟨List.replicate n [], []⟩ {} := by
  refine ⟨by simp, ?_, rfl, refInv_of_sysSim sysSim_init⟩
  intro i hi
  simp only [List.getElem_replicate]
  rw [restrictW_init]
  exact wsim_init

end Aquatic.Ws
