/-
  Helper lemmas about the association-list primitives of Model/Store.lean.
-/
import Aquatic.Model.Store

namespace Aquatic

def keysOf (l : Entries) : List Key := l.map (·.1)

@[simp] theorem keysOf_nil : keysOf [] = [] := rfl
@[simp] theorem keysOf_cons (e : Key × Peer) (l : Entries) : keysOf (e :: l) = e.1 :: keysOf l := rfl
@[simp] theorem keysOf_append (a b : Entries) : keysOf (a ++ b) = keysOf a ++ keysOf b := by
  simp [keysOf]

theorem mem_keysOf {l : Entries} {k : Key} : k ∈ keysOf l ↔ ∃ p, (k, p) ∈ l := by
  simp [keysOf]

/-- the entries other than key `k` -/
def without (l : Entries) (k : Key) : Entries := l.filter (fun e => e.1 ≠ k)

/-- the value stored under `k` -/
def lookup (l : Entries) (k : Key) : Option Peer := (l.find? (fun e => e.1 = k)).map (·.2)

@[simp] theorem without_nil (k : Key) : without [] k = [] := rfl

theorem without_cons_eq (v : Peer) (t : Entries) (k : Key) :
    without ((k, v) :: t) k = without t k := by
  simp [without]

theorem without_cons_ne {k' : Key} (v : Peer) (t : Entries) {k : Key} (h : k' ≠ k) :
    without ((k', v) :: t) k = (k', v) :: without t k := by
  simp [without, h]

theorem without_eq_self {l : Entries} {k : Key} (h : k ∉ keysOf l) : without l k = l := by
  unfold without
  rw [List.filter_eq_self]
  intro a ha
  simp only [ne_eq, decide_not, Bool.not_eq_eq_eq_not, Bool.not_true, decide_eq_false_iff_not]
  intro hk
  apply h
  rw [← hk]
  exact List.mem_map_of_mem ha

theorem keysOf_without_sublist (l : Entries) (k : Key) : (keysOf (without l k)).Sublist (keysOf l) := by
  unfold keysOf without
  exact List.Sublist.map _ List.filter_sublist

theorem not_mem_keysOf_without (l : Entries) (k : Key) : k ∉ keysOf (without l k) := by
  simp [keysOf, without]

theorem nodup_without {l : Entries} (k : Key) (h : (keysOf l).Nodup) : (keysOf (without l k)).Nodup :=
  (keysOf_without_sublist l k).nodup h

/-! ### smallRemove -/

theorem smallRemove_fst {l : Entries} (k : Key) (h : (keysOf l).Nodup) :
    (smallRemove l k).1 = without l k := by
  induction l with
  | nil => rfl
  | cons e t ih =>
    obtain ⟨k', v⟩ := e
    simp only [keysOf_cons, List.nodup_cons] at h
    by_cases hk : k' = k
    · subst hk
      simp only [smallRemove, ↓reduceIte, without_cons_eq]
      exact (without_eq_self h.1).symm
    · simp only [smallRemove, hk, ↓reduceIte, without_cons_ne v t hk]
      rw [ih h.2]

theorem smallRemove_snd (l : Entries) (k : Key) : (smallRemove l k).2 = lookup l k := by
  induction l with
  | nil => rfl
  | cons e t ih =>
    obtain ⟨k', v⟩ := e
    by_cases hk : k' = k
    · simp [smallRemove, lookup, hk]
    · simp only [smallRemove, hk, ↓reduceIte, ih]
      simp [lookup, hk]

/-! ### swapRemove -/

theorem getLast_cons_dropLast_perm {α : Type} {t : List α} {x : α} (h : t.getLast? = some x) :
    (x :: t.dropLast).Perm t := by
  have hne : t ≠ [] := by
    intro h0; subst h0; simp at h
  have hx : x = t.getLast hne := by
    rw [List.getLast?_eq_some_getLast hne] at h
    exact (Option.some.inj h).symm
  have := List.dropLast_concat_getLast hne
  rw [← hx] at this
  have h2 : (x :: t.dropLast).Perm (t.dropLast ++ [x]) := (List.perm_append_singleton x _).symm
  rw [this] at h2
  exact h2

theorem swapRemove_fst_perm {l : Entries} (k : Key) (h : (keysOf l).Nodup) :
    (swapRemove l k).1.Perm (without l k) := by
  induction l with
  | nil => exact List.Perm.refl _
  | cons e t ih =>
    obtain ⟨k', v⟩ := e
    simp only [keysOf_cons, List.nodup_cons] at h
    by_cases hk : k' = k
    · subst hk
      rw [without_cons_eq, without_eq_self h.1]
      simp only [swapRemove, ↓reduceIte]
      cases hl : t.getLast? with
      | none =>
        have : t = [] := List.getLast?_eq_none_iff.mp hl
        subst this; exact List.Perm.refl _
      | some x => exact getLast_cons_dropLast_perm hl
    · simp only [swapRemove, hk, ↓reduceIte, without_cons_ne v t hk]
      exact List.Perm.cons _ (ih h.2)

theorem swapRemove_snd (l : Entries) (k : Key) : (swapRemove l k).2 = lookup l k := by
  induction l with
  | nil => rfl
  | cons e t ih =>
    obtain ⟨k', v⟩ := e
    by_cases hk : k' = k
    · simp [swapRemove, lookup, hk]
    · simp only [swapRemove, hk, ↓reduceIte, ih]
      simp [lookup, hk]

theorem swapRemove_length_le (l : Entries) (k : Key) : (swapRemove l k).1.length ≤ l.length := by
  induction l with
  | nil => simp [swapRemove]
  | cons e t ih =>
    obtain ⟨k', v⟩ := e
    by_cases hk : k' = k
    · simp only [swapRemove, hk, ↓reduceIte]
      cases hl : t.getLast? with
      | none => simp
      | some x =>
        have hne : t ≠ [] := by intro h0; subst h0; simp at hl
        simp only [List.length_cons, List.length_dropLast]
        have : 0 < t.length := List.length_pos_iff.mpr hne
        omega
    · simp only [swapRemove, hk, ↓reduceIte, List.length_cons]
      omega

/-! ### imapInsert -/

theorem imapInsert_of_not_mem {l : Entries} {k : Key} (p : Peer) (h : k ∉ keysOf l) :
    imapInsert l k p = l ++ [(k, p)] := by
  induction l with
  | nil => rfl
  | cons e t ih =>
    obtain ⟨k', v⟩ := e
    simp only [keysOf_cons, List.mem_cons, not_or] at h
    have hk : k' ≠ k := fun hh => h.1 hh.symm
    simp only [imapInsert, hk, ↓reduceIte, List.cons_append, ih h.2]

/-! ### lookup / without / counting -/

theorem lookup_none_of_not_mem {l : Entries} {k : Key} (h : k ∉ keysOf l) : lookup l k = none := by
  induction l with
  | nil => rfl
  | cons e t ih =>
    obtain ⟨k', v⟩ := e
    simp only [keysOf_cons, List.mem_cons, not_or] at h
    have hk : k' ≠ k := fun hh => h.1 hh.symm
    have := ih h.2
    simp only [lookup, List.find?_cons, hk, decide_false] at this ⊢
    exact this

/-- with distinct keys, the seeders of `l` are those of `without l k` plus `k`'s own entry -/
theorem numSeeders_split {l : Entries} (k : Key) (h : (keysOf l).Nodup) :
    numSeeders l = numSeeders (without l k) +
      (match lookup l k with | some p => if p.seeder then 1 else 0 | none => 0) := by
  induction l with
  | nil => rfl
  | cons e t ih =>
    obtain ⟨k', v⟩ := e
    simp only [keysOf_cons, List.nodup_cons] at h
    by_cases hk : k' = k
    · subst hk
      rw [without_cons_eq, without_eq_self h.1]
      simp only [numSeeders, List.countP_cons, lookup, List.find?_cons, decide_true, Option.map_some]
    · rw [without_cons_ne v t hk]
      have := ih h.2
      simp only [numSeeders, List.countP_cons, lookup, List.find?_cons, hk, decide_false] at this ⊢
      omega

theorem length_split {l : Entries} (k : Key) (h : (keysOf l).Nodup) :
    l.length = (without l k).length + (if (lookup l k).isSome then 1 else 0) := by
  induction l with
  | nil => rfl
  | cons e t ih =>
    obtain ⟨k', v⟩ := e
    simp only [keysOf_cons, List.nodup_cons] at h
    by_cases hk : k' = k
    · subst hk
      rw [without_cons_eq, without_eq_self h.1]
      simp [lookup]
    · rw [without_cons_ne v t hk]
      have := ih h.2
      have hl : lookup ((k', v) :: t) k = lookup t k := by simp [lookup, hk]
      rw [hl, List.length_cons, List.length_cons]
      omega

theorem numSeeders_le_length (l : Entries) : numSeeders l ≤ l.length := List.countP_le_length

theorem numSeeders_perm {a b : Entries} (h : a.Perm b) : numSeeders a = numSeeders b :=
  h.countP_eq _

end Aquatic
