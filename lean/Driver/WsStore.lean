/-
  Driver for the WebTorrent swarm store traces (C08, C09; also C12's no-panic claim for this store).
  Each line is replayed on the model (`Aquatic.Ws.sysStep`) and on the reference tracker
  (`Aquatic.Ws.refStep`):
    MISMATCH  no in-range pair of random draws makes the model produce the implementation's messages
    SPECFAIL  the implementation's messages are not ones the reference allows
-/
import Aquatic.Spec.RefWs
import Aquatic.Model.WsShards
import Driver.Util

open Aquatic Aquatic.Ws Drv

namespace WsStoreDrv

structure St where
  cfg : WsCfg := ⟨10, 255, 180, 120⟩
  s4 : Sys := {}
  s6 : Sys := {}
  r4 : RefSys := {}
  r6 : RefSys := {}
  /-- socket-level run: messages of one operation are compared as sorted lists, the pairs a close
  sends are not visible -/
  net : Bool := false
  afterBurst : Bool := false
  /-- the same history on the model with `nw` swarm workers (`Model/WsShards`; 1 for the in-process store) -/
  nw : Nat := 1
  h4 : ShSys := ⟨[[]], []⟩
  h6 : ShSys := ⟨[[]], []⟩

def St.sys (s : St) (fam : String) : Sys := if fam = "4" then s.s4 else s.s6
def St.ref (s : St) (fam : String) : RefSys := if fam = "4" then s.r4 else s.r6
def St.set (s : St) (fam : String) (a : Sys) (b : RefSys) : St :=
  if fam = "4" then { s with s4 := a, r4 := b } else { s with s6 := a, r6 := b }

def St.sh (s : St) (fam : String) : ShSys := if fam = "4" then s.h4 else s.h6
def St.setSh (s : St) (fam : String) (a : ShSys) : St := if fam = "4" then { s with h4 := a } else { s with h6 := a }
def St.withWorkers (s : St) (n : Nat) : St :=
  let n := if n = 0 then 1 else n
  { s with nw := n, h4 := ⟨List.replicate n [], []⟩, h6 := ⟨List.replicate n [], []⟩ }

def connText (c : ConnId) : String := s!"{c.consumer}.{c.slot}"

def filesText (fs : List (Nat × Nat × Nat)) : String :=
  if fs.isEmpty then "-" else String.intercalate "," (fs.map (fun (h, (a, b)) => s!"{natHex 40 h}={a}:{b}"))

def msgText : Msg → String
  | .announce to h c i => s!"A:{connText to}:{natHex 40 h}:{c}:{i}"
  | .scrape to fs => s!"S:{connText to}:{filesText fs}"
  | .offer to h p o t => s!"O:{connText to}:{natHex 40 h}:{natHex 40 p}:{natHex 40 o}:{t}"
  | .answer to h p o t => s!"N:{connText to}:{natHex 40 h}:{natHex 40 p}:{natHex 40 o}:{t}"
  | .error to h => s!"E:{connText to}:{match h with | some x => natHex 40 x | none => "-"}"

def msgsText (l : List Msg) : String := if l.isEmpty then "-" else String.intercalate " " (l.map msgText)

def sortStrs (l : List String) : List String := (l.toArray.qsort (· < ·)).toList

/-- as `msgsText`; in a socket-level run sorted, as the harness prints what the clients received -/
def msgsTextN (net : Bool) (l : List Msg) : String :=
  if l.isEmpty then "-" else String.intercalate " " (if net then sortStrs (l.map msgText) else l.map msgText)

def parseConn (s : String) : ConnId :=
  match s.splitOn "." with
  | [a, b] => ⟨nat! a, nat! b⟩
  | _ => ⟨0, 0⟩

def parseFiles (s : String) : List (Nat × Nat × Nat) :=
  (sepList "," s).map (fun f => match f.splitOn "=" with
    | [h, st] => (match st.splitOn ":" with
        | [a, b] => (hexNat h, nat! a, nat! b) | _ => (hexNat h, 0, 0))
    | _ => (0, 0, 0))

def allowedFn (mode : String) (list : List Nat) : Nat → Bool :=
  match mode with
  | "allow" => fun h => list.contains h
  | "deny" => fun h => !list.contains h
  | _ => fun _ => true

/-- all in-range draws for a map of `len` entries and limit `n` -/
def offsetPairs (len n : Nat) : List (Nat × Nat) :=
  if len ≤ n + 1 then [(0, 0)] else
  match wsBounds len n with
  | .ok (t1, t2) => (List.range t1).flatMap (fun o1 => ((List.range t2).filter (fun o2 => decide (len / 2 ≤ o2))).map (fun o2 => (o1, o2)))
  | .error _ => [(0, 0)]

/-- receivers (peer ids) read off the implementation's offer messages: the stored peers of the
torrent, other than the sender, owned by the addressed connections -/
def receiversOf (es : List RW) (h sender : Nat) (tos : List ConnId) : Option (List Nat) :=
  let rec go (used : List Nat) : List ConnId → Option (List Nat)
    | [] => some []
    | c :: t =>
      match (Ref.ofTorrent es h).find? (fun e => decide (e.owner = c) && !decide (e.pid = sender) && !used.contains e.pid) with
      | some e => (go (e.pid :: used) t).map (fun r => e.pid :: r)
      | none => none
  go [] tos

def stepAnn (s : St) (a : List String) (out : List String) : St × Verdict × List String :=
  match a with
  | [fam, consumer, slot, allowed, now, hash, pid, event, left, offers, answer] =>
    let conn : ConnId := ⟨nat! consumer, nat! slot⟩
    let req : AnnReq := {
      hash := hexNat hash, pid := hexNat pid, stopped := event = "stopped",
      left := if left = "-" then none else some (nat! left),
      offers := if offers = "-" then none else if offers = "~" then some [] else
        some ((sepList "," offers).map (fun x => match x.splitOn ":" with | [o, t] => (hexNat o, nat! t) | _ => (0, 0))),
      answer := if answer = "-" then none else
        match answer.splitOn ":" with | [p, o, t] => some (hexNat p, hexNat o, nat! t) | _ => none }
    let impl := if out.isEmpty then "-" else String.intercalate " " out
    let sys := s.sys fam
    let ref := s.ref fam
    let nowN := nat! now
    let allowedB := allowed = "1"
    -- model: try every in-range pair of draws
    let tor := (IMap.get sys.m req.hash).getD {}
    let lenAfter := match insertOrUpdate tor conn req.pid (wsStatus req.stopped req.left) 0 with
      | .ok t => t.peers.length | .error _ => 0
    let n := min (req.offers.getD []).length s.cfg.maxOffers
    let pairs := if req.offers.isSome then offsetPairs lenAfter n else [(0, 0)]
    let results : List (Except Panic (Sys × List Msg)) := pairs.map (fun (o1, o2) => sysStep s.cfg sys (.ann conn allowedB req nowN o1 o2))
    let hit := results.find? (fun x => match x with | .ok (_, msgs) => msgsTextN s.net msgs = impl | .error _ => false)
    let first := results.head?
    -- reference: receivers as the implementation chose them
    -- receivers in the order of the offers of the request (a socket-level trace lists the messages sorted)
    let offerMsgs : List (String × ConnId) := out.filterMap (fun t => match t.splitOn ":" with | ["O", c, _, _, oid, _] => some (oid, parseConn c) | _ => none)
    let tos : List ConnId :=
      let inOrder := (req.offers.getD []).filterMap (fun off => (offerMsgs.find? (fun m => hexNat m.1 = off.1)).map (·.2))
      if s.net ∧ inOrder.length = offerMsgs.length then inOrder else offerMsgs.map (·.2)
    let ignored : Bool := match Ref.find ref.w.entries req.hash req.pid with | some e => decide (e.owner ≠ conn) | none => false
    let esAfter := if ignored || req.stopped then ref.w.entries else
      Ref.rest ref.w.entries req.hash req.pid ++ [⟨req.hash, req.pid, conn, false, 0⟩]
    let recv := receiversOf esAfter req.hash req.pid tos
    let twoPid : Bool := match IMap.get (ref.bookOf conn) req.hash with | some p => decide (p ≠ req.pid) | none => false
    let notes := ["wann"] ++ (if ignored ∧ allowedB ∧ !twoPid then ["ignored-foreign-owner"] else [])
      ++ (if !tos.isEmpty then ["offers-forwarded"] else [])
      ++ (if out.any (·.startsWith "N:") then ["answer-forwarded"] else [])
      ++ (if req.answer.isSome ∧ out.any (·.startsWith "E:") then ["answer-refused"] else [])
      ++ (if req.answer.isSome ∧ !out.any (·.startsWith "E:") ∧ !out.any (·.startsWith "N:") ∧ !ignored then ["answer-to-unknown-peer"] else [])
      ++ (if twoPid ∧ allowedB then ["second-peer-id-closes"] else [])
      ++ (if !allowedB then ["gate-refused"] else [])
      ++ (if req.stopped then ["stopped"] else [])
      ++ (if lenAfter > n + 1 ∧ req.offers.isSome ∧ n > 0 then ["halves-branch"] else [])
      ++ (if pairs.length > 1 then ["offset-choices>1"] else [])
      ++ (if ignored && (match Ref.find ref.w.entries req.hash req.pid with | some e => decide (e.owner.slot = conn.slot) | none => false) then ["slot-collision"] else [])
    match recv with
    | none => (s, .specfail s!"an offer is addressed to a connection that owns no other stored peer of the torrent class=offer-to-wrong-connection", notes)
    | some recv =>
      let (ref', rmsgs) := refStep s.cfg ref recv (.ann conn allowedB req nowN 0 0)
      let recvChecked : Bool := ignored || !allowedB || twoPid || req.stopped || decide (Ref.recvOk s.cfg ref'.w.entries req recv)
      let cls := (if ignored then " class=foreign-owner-announce-not-ignored" else "")
        ++ (if twoPid ∧ allowedB ∧ impl = "-" then " class=second-peer-id-error-reply-lost" else "")
      if msgsTextN s.net rmsgs ≠ impl then
        (match hit with
         | some (.ok (sys', _)) => (s.set fam sys' ref', .specfail s!"ref={msgsTextN s.net rmsgs}{cls}", notes)
         | _ => (match first with
            | some (.ok (sys', _)) => (s.set fam sys' ref', .specfail s!"ref={msgsTextN s.net rmsgs}{cls}", notes)
            | _ => (s.set fam sys ref', .specfail s!"ref={msgsTextN s.net rmsgs}{cls}", notes)))
      else if !recvChecked then
        (s, .specfail s!"offer receivers {recv.map (natHex 40)} are not an allowed choice (distinct, stored, not the sender, min(offers, max_offers, others) many)", notes)
      else
        match hit, first with
        | some (.ok (sys', _)), _ => (s.set fam sys' ref', .ok, notes)
        | _, some (.ok (sys', msgs)) => (s.set fam sys' ref', .mismatch s!"model={msgsTextN s.net msgs} (for the first of {pairs.length} draws)", notes)
        | _, some (.error p) => (s.set fam sys ref', .mismatch s!"model=panic:{repr p}", notes)
        | _, none => (s, .bad "no draws", notes)
  | _ => (s, .bad "wann arity", [])

def stepScr (s : St) (a : List String) (out : List String) : St × Verdict × List String :=
  match a with
  | [fam, consumer, slot, hs] =>
    let conn : ConnId := ⟨nat! consumer, nat! slot⟩
    let hashes := hexNatList "," hs
    let impl := if out.isEmpty then "-" else String.intercalate " " out
    let sys := s.sys fam
    let ref := s.ref fam
    let implFiles : Option (List (Nat × Nat × Nat)) := match out with
      | [t] => (match t.splitOn ":" with
          | "S" :: c :: rest => if parseConn c = conn then some (parseFiles (String.intercalate ":" rest)) else none
          | _ => none)
      | _ => none
    let notes := ["wscr"] ++ (if hashes.length > s.cfg.maxScrape then ["scrape-truncated"] else [])
      ++ (if (Ref.scrapeFiles s.cfg ref.w hashes).any (fun f => f.2 ≠ (0, 0)) then ["scrape-nonzero"] else [])
    match implFiles with
    | none => (s, .specfail "a scrape must be answered by exactly one scrape reply to the requester", notes)
    | some fs =>
      if !Ref.scrapeOk s.cfg ref.w hashes fs then
        (s, .specfail s!"ref={filesText (httpScrapeFiles (Ref.scrapeFiles s.cfg ref.w hashes))}{if s.afterBurst then " class=peers-of-a-dropped-connection-remain" else ""}", notes)
      else if s.afterBurst then
        -- which of the unanswered announces of the burst reached the swarm worker (and left an empty
        -- torrent behind) is not observable: only the reference's relation is checked
        (s, .ok, notes ++ ["scrape-after-burst"])
      else match sysStep s.cfg sys (.scr conn hashes) with
        | .ok (_, msgs) => if msgsText msgs = impl then (s, .ok, notes) else (s, .mismatch s!"model={msgsText msgs}", notes)
        | .error p => (s, .mismatch s!"model=panic:{repr p}", notes)
  | _ => (s, .bad "wscr arity", [])

def pairsText (b : List (Nat × Nat)) : String :=
  let strs := b.map (fun (h, p) => s!"{natHex 40 h}:{natHex 40 p}")
  let sorted := strs.toArray.qsort (· < ·) |>.toList
  if sorted.isEmpty then "-" else String.intercalate "," sorted

def stepClose (s : St) (a : List String) (out : List String) : St × Verdict × List String :=
  match a with
  | [fam, consumer, slot] =>
    let conn : ConnId := ⟨nat! consumer, nat! slot⟩
    let impl := if out.isEmpty then "-" else String.intercalate " " out
    let sys := s.sys fam
    let ref := s.ref fam
    let owned := ref.w.entries.filter (fun e => decide (e.owner = conn))
    let notes := ["wclose"] ++ (if !owned.isEmpty then ["close-with-entries"] else [])
      ++ (if (bookOf sys conn).any (fun (h, p) => match Ref.find ref.w.entries h p with | some e => decide (e.owner ≠ conn) | none => false)
          then ["close-after-ignored-announce"] else [])
    let (ref', _) := refStep s.cfg ref [] (.close conn)
    match sysStep s.cfg sys (.close conn) with
    | .ok (sys', _) =>
      if s.net then
        (if impl ≠ "-" then (s.set fam sys' ref', .specfail s!"messages delivered because a connection closed: {impl}", notes)
         else (s.set fam sys' ref', .ok, notes))
      else if pairsText (bookOf sys conn) ≠ impl then (s.set fam sys' ref', .mismatch s!"model pairs={pairsText (bookOf sys conn)}", notes)
      else (s.set fam sys' ref', .ok, notes)
    | .error p => (s.set fam sys ref', .mismatch s!"model=panic:{repr p}", notes)
  | _ => (s, .bad "wclose arity", [])

def stepCln (s : St) (a : List String) : St × Verdict × List String :=
  match a with
  | [now, mode, list] =>
    let allowed := allowedFn mode (hexNatList "," list)
    let nowN := nat! now
    let go (sys : Sys) (ref : RefSys) : Except Panic Sys × RefSys × Bool :=
      let before := ref.w.entries.length
      let (ref', _) := refStep s.cfg ref [] (.clean nowN allowed)
      ((sysStep s.cfg sys (.clean nowN allowed)).map (·.1), ref', decide (ref'.w.entries.length < before))
    let (m4, r4, e4) := go s.s4 s.r4
    let (m6, r6, e6) := go s.s6 s.r6
    let notes := ["wcln"] ++ (if e4 ∨ e6 then ["clean-removed-peers"] else [])
    match m4, m6 with
    | .ok a4, .ok a6 => ({ s with s4 := a4, s6 := a6, r4 := r4, r6 := r6 }, .ok, notes)
    | _, _ => ({ s with r4 := r4, r6 := r6 }, .mismatch "model=panic", notes)
  | _ => (s, .bad "wcln arity", [])

/-! ### the same operations on the `n`-worker model: its messages must be the implementation's as well -/

def combine (r : St × Verdict × List String) (sh : St → St × Option String) : St × Verdict × List String :=
  let (s1, v, notes) := r
  let (s2, bad) := sh s1
  match v, bad with
  | .ok, some t => (s2, .mismatch s!"model with {s2.nw} swarm workers: {t}", notes)
  | _, _ => (s2, v, notes)

def shadowAnn (s0 : St) (a : List String) (out : List String) (s : St) : St × Option String :=
  match a with
  | [fam, consumer, slot, allowed, now, hash, pid, event, left, offers, answer] =>
    let conn : ConnId := ⟨nat! consumer, nat! slot⟩
    let req : AnnReq := {
      hash := hexNat hash, pid := hexNat pid, stopped := event = "stopped",
      left := if left = "-" then none else some (nat! left),
      offers := if offers = "-" then none else if offers = "~" then some [] else
        some ((sepList "," offers).map (fun x => match x.splitOn ":" with | [o, t] => (hexNat o, nat! t) | _ => (0, 0))),
      answer := if answer = "-" then none else
        match answer.splitOn ":" with | [p, o, t] => some (hexNat p, hexNat o, nat! t) | _ => none }
    let impl := if out.isEmpty then "-" else String.intercalate " " out
    let sh := s0.sh fam
    let m := (sh.ms[route s0.nw req.hash]?).getD []
    let tor := (IMap.get m req.hash).getD {}
    let lenAfter := match insertOrUpdate tor conn req.pid (wsStatus req.stopped req.left) 0 with
      | .ok t => t.peers.length | .error _ => 0
    let n := min (req.offers.getD []).length s0.cfg.maxOffers
    let pairs := if req.offers.isSome then offsetPairs lenAfter n else [(0, 0)]
    let results : List (Except Panic (ShSys × List Msg)) :=
      pairs.map (fun (o1, o2) => shStep s0.cfg s0.nw sh (.ann conn (allowed = "1") req (nat! now) o1 o2))
    let hit := results.find? (fun x => match x with | .ok (_, msgs) => msgsTextN s0.net msgs = impl | .error _ => false)
    match hit, results.head? with
    | some (.ok (sh', _)), _ => (s.setSh fam sh', none)
    | _, some (.ok (sh', msgs)) => (s.setSh fam sh', some s!"{msgsTextN s0.net msgs} (for the first of {pairs.length} draws)")
    | _, some (.error p) => (s, some s!"panic:{repr p}")
    | _, none => (s, none)
  | _ => (s, none)

def shadowScr (s0 : St) (a : List String) (out : List String) (s : St) : St × Option String :=
  match a with
  | [fam, consumer, slot, hs] =>
    if s0.afterBurst then (s, none) else
    let conn : ConnId := ⟨nat! consumer, nat! slot⟩
    let impl := if out.isEmpty then "-" else String.intercalate " " out
    match shStep s0.cfg s0.nw (s0.sh fam) (.scr conn (hexNatList "," hs)) with
    | .ok (_, msgs) => if msgsText msgs = impl then (s, none) else (s, some (msgsText msgs))
    | .error p => (s, some s!"panic:{repr p}")
  | _ => (s, none)

def shadowClose (s0 : St) (a : List String) (s : St) : St × Option String :=
  match a with
  | [fam, consumer, slot] =>
    match shStep s0.cfg s0.nw (s0.sh fam) (.close ⟨nat! consumer, nat! slot⟩) with
    | .ok (sh', _) => (s.setSh fam sh', none)
    | .error p => (s, some s!"panic:{repr p}")
  | _ => (s, none)

def shadowCln (s0 : St) (a : List String) (s : St) : St × Option String :=
  match a with
  | [now, mode, list] =>
    let allowed := allowedFn mode (hexNatList "," list)
    let go (sh : ShSys) : Except Panic ShSys :=
      (List.range s0.nw).foldl (fun acc i => match acc with
        | .ok x => (shStep s0.cfg s0.nw x (.clean i (nat! now) allowed)).map (·.1)
        | .error e => .error e) (.ok sh)
    match go s0.h4, go s0.h6 with
    | .ok a4, .ok a6 => ({ s with h4 := a4, h6 := a6 }, none)
    | _, _ => (s, some "panic")
  | _ => (s, none)

def shadowBurst (s0 : St) (fam : String) (conn : ConnId) (hs : List Nat) (pid : Nat) (s : St) : St × Option String :=
  let go (acc : ShSys) (h : Nat) : ShSys :=
    match shStep s0.cfg s0.nw acc (.ann conn true ⟨h, pid, false, some 5, none, none⟩ 0 0 0) with | .ok (x, _) => x | .error _ => acc
  let sh1 := hs.foldl go (s0.sh fam)
  let sh2 := match shStep s0.cfg s0.nw sh1 (.close conn) with | .ok (x, _) => x | .error _ => sh1
  (s.setSh fam sh2, none)

def step (s : St) (ts : List String) : St × Verdict × List String :=
  let (a, out) := splitArrow ts
  match a with
  | ["cfg", "ws", mo, ms, pa, oa] => (({ s with cfg := ⟨nat! mo, nat! ms, nat! pa, nat! oa⟩, net := false } : St).withWorkers 1, .skip, ["history"])
  | ["cfg", "wsnet", mo, ms] => ({ s with cfg := ⟨nat! mo, nat! ms, 180, 120⟩, net := true }, .skip, ["history"])
  | "net" :: rest =>
    if rest.any (fun t => t.startsWith "START-FAILED" ∨ t.startsWith "TRACKER-EXITED") then
      (s, .specfail s!"tracker process: {rest}", ["net-problem"])
    else
      let nw := match rest.find? (·.startsWith "swarm_workers=") with | some t => nat! ((t.splitOn "=").getD 1 "1") | none => 1
      (s.withWorkers nw, .skip, rest.filter (fun t => t.startsWith "socket_workers" ∨ t.startsWith "swarm_workers" ∨ t = "burst=true"))
  | ["new"] => (({ cfg := s.cfg, net := s.net } : St).withWorkers s.nw, .skip, [])
  | ["wbad", _fam, consumer, slot, _hex] =>
    -- an unparseable message: exactly one error reply, to the sender, nothing else happens
    let want := s!"E:{consumer}.{slot}:-"
    let impl := if out.isEmpty then "-" else String.intercalate " " out
    if impl = want then (s, .ok, ["wbad"]) else (s, .specfail s!"ref={want}", ["wbad"])
  | ["wburst", fam, consumer, slot, hs, pidS] =>
    -- announces sent without waiting, then the connection is reset: afterwards nothing of it is stored
    let conn : ConnId := ⟨nat! consumer, nat! slot⟩
    let go (acc : Sys × RefSys) (h : Nat) : Sys × RefSys :=
      let req : AnnReq := ⟨h, hexNat pidS, false, some 5, none, none⟩
      let sys' := match sysStep s.cfg acc.1 (.ann conn true req 0 0 0) with | .ok (x, _) => x | .error _ => acc.1
      (sys', (refStep s.cfg acc.2 [] (.ann conn true req 0 0 0)).1)
    let (sys1, ref1) := (hexNatList "," hs).foldl go (s.sys fam, s.ref fam)
    let sys2 := match sysStep s.cfg sys1 (.close conn) with | .ok (x, _) => x | .error _ => sys1
    let ref2 := (refStep s.cfg ref1 [] (.close conn)).1
    combine ({ s.set fam sys2 ref2 with afterBurst := true }, .ok, ["wburst"]) (shadowBurst s fam conn (hexNatList "," hs) (hexNat pidS))
  | "wann" :: rest => combine (stepAnn s rest out) (shadowAnn s rest out)
  | "wscr" :: rest => combine (stepScr s rest out) (shadowScr s rest out)
  | "wclose" :: rest => combine (stepClose s rest out) (shadowClose s rest)
  | "wcln" :: rest => combine (stepCln s rest) (shadowCln s rest)
  | _ => (s, .bad "unknown op", [])

def main : IO Unit := do
  let t ← runLoop (← IO.getStdin) step ({} : St) {} 1
  IO.println t.summary

end WsStoreDrv
