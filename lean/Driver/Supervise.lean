/-
  Driver for the fault-injection traces (C19): `run()` of a tracker child process after a worker
  was made to panic / return / fail to bind.
    SPECFAIL  the tracker kept running, or its run() took ten seconds or more to return
    MISMATCH  the model of the supervising loop predicts an earlier return (next pass + slack) or
              another kind of result
-/
import Aquatic.Model.Supervise
import Driver.Util

open Aquatic.Supervise Drv

namespace SuperviseDrv

def shapeOf (kind : String) : Aquatic.Generated.Supervise.RunShape :=
  match kind with
  | "udp" => Aquatic.Generated.Supervise.udp
  | "http" => Aquatic.Generated.Supervise.http
  | _ => Aquatic.Generated.Supervise.ws

def step (s : Unit) (ts : List String) : Unit × Verdict × List String :=
  let (a, out) := splitArrow ts
  match a with
  | ["sv", kind, worker, mode, sw, ww] =>
    let notes := ["case", s!"sv-{kind}", s!"{kind}-{worker}-{mode}", s!"mode-{mode}", s!"workers={sw}x{ww}"]
    let shape := shapeOf kind
    let pollMs := shape.pollSecs * 1000
    match out with
    | ["exited", ms, line] =>
      let msN := nat! ms
      -- model: the pass after the fault (the worker needs one loop iteration, at most ~1 s with the
      -- 1 s cleaning / statistics intervals of the run, to reach its fault point) returns an error
      let outcome : Outcome := if mode = "panic" then .panicked else if mode.startsWith "bind" then .returnedErr else .returnedOk
      let modelRes := pass shape 0 [.running, outcome]
      let isErr := line.startsWith "EXIT_err"
      if msN ≥ 10000 then (s, .specfail s!"run() returned only {msN} ms after the worker stopped", notes)
      else if !isErr then (s, .specfail s!"run() returned without an error: {line}", notes)
      else if modelRes ≠ some (.err 1 outcome) then (s, .mismatch s!"model: {repr modelRes}", notes)
      else if msN > pollMs + 1500 then (s, .mismatch s!"model: the next pass comes within {pollMs} ms (+ up to 1.5 s for the worker to reach its fault point); observed {msN} ms", notes)
      else (s, .ok, notes)
    | "NO-OBSERVATION" :: _ => (s, .skip, notes ++ ["no-observation"])
    | "RUNNING" :: _ => (s, .specfail s!"the tracker kept running although its {worker} worker stopped ({mode})", notes)
    | _ => (s, .specfail s!"tracker process: {out}", notes)
  | _ => (s, .bad "unknown op", [])

def main : IO Unit := do
  let t ← runLoop (← IO.getStdin) step () {} 1
  IO.println t.summary

end SuperviseDrv
