/-
  Driver for the connection-id traces (C05).  The keyed hash is opaque: the
  driver learns `mac (t, canonical ip) = tag` from the `iss` lines of the current
  validator and treats every other (t, ip) as having an unknown MAC, for which a
  presented tag is expected to be wrong (a 2^-32 chance of a spurious alarm per
  forged id).
-/
import Aquatic.Model.ConnId
import Driver.Util

open Aquatic Drv

namespace ValidatorDrv

structure St where
  age : Nat := 0
  known : List ((Nat × Ip) × Nat) := []     -- (t, canonical ip) ↦ tag

def ipOfHex (h : String) : Ip :=
  if h.length = 8 then .v4 (hexNat h)
  else .v6 (hexNat (String.ofList (h.toList.take 24))) (hexNat (String.ofList (h.toList.drop 24)))

/-- the MAC oracle: known pairs, else a value no 32-bit tag can equal -/
def macOf (known : List ((Nat × Ip) × Nat)) (t : Nat) (ip : Ip) : Nat :=
  match known.find? (fun x => x.1 = (t, ip)) with
  | some x => x.2
  | none => 2 ^ 32          -- out of range: never equal to a presented tag

def step (s : St) (ts : List String) : St × Verdict × List String :=
  let (a, out) := splitArrow ts
  match a, out with
  | ["cfg", age], _ => ({ age := nat! age }, .skip, ["history"])
  | ["iss", now, ip], [t, tag] =>
    let cip := canonical (ipOfHex ip)
    let s' := { s with known := ((nat! t, cip), nat! tag) :: s.known }
    -- the embedded time must be the clock value
    if nat! t ≠ nat! now then (s', .specfail s!"issued id embeds time {t}, clock is {now}", ["iss"])
    else if (createId (macOf s'.known) (nat! now) cip).t ≠ nat! t then (s', .mismatch "model", ["iss"])
    else (s', .ok, ["iss"])
  | ["chk", now, ip, t, tag], [v] =>
    let cip := canonical (ipOfHex ip)
    let id : ConnId := ⟨nat! t, nat! tag⟩
    let model := idValid (macOf s.known) (nat! now) s.age cip id
    -- the property's words: accepted iff this process issued exactly this id for this address,
    -- fewer than `age` seconds have passed, and the embedded time is not > 60 s in the future
    let issued := s.known.any (fun x => x.1 = (id.t, cip) ∧ x.2 = id.tag)
    let spec := issued && decide (nat! now < id.t + s.age) && decide (id.t ≤ nat! now + 60)
    let notes := ["chk"] ++ (if issued then ["issued-id"] else ["foreign-or-altered-id"])
      ++ (if issued ∧ nat! now + 1 = id.t + s.age then ["t=expiry-1"] else [])
      ++ (if issued ∧ nat! now = id.t + s.age then ["t=expiry"] else [])
      ++ (if issued ∧ id.t = nat! now + 60 then ["60s-future"] else [])
      ++ (if issued ∧ id.t = nat! now + 61 then ["61s-future"] else [])
      ++ (if s.age = 0 then ["age=0"] else [])
      ++ (if v = "1" then ["accepted"] else ["rejected"])
    if (if spec then "1" else "0") ≠ v then (s, .specfail s!"spec={spec}", notes)
    else if (if model then "1" else "0") ≠ v then (s, .mismatch s!"model={model}", notes)
    else (s, .ok, notes)
  | _, _ => (s, .bad "arity", [])

def main : IO Unit := do
  let t ← runLoop (← IO.getStdin) step ({} : St) {} 1
  IO.println t.summary

end ValidatorDrv
