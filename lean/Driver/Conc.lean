/-
  Driver for the concurrency traces (C04): every explored schedule of a small program is replayed on
  the model (Aquatic.Conc.runSched, segment by segment) and on the reference tracker applied at the
  linearization points the schedule fixes.
    MISMATCH  the model's replies / final state for this schedule differ from the implementation's
    SPECFAIL  the replies are not those of the reference at the linearization points (an update was
              lost, an operation was not atomic on its torrent), or the run hung
-/
import Aquatic.Model.Conc
import Driver.Util

open Aquatic Aquatic.Conc Drv

namespace ConcDrv

inductive TOp where
  | ann (a : AnnArgs)
  | scr (hs : List Nat)
  | cln (now : Nat)

structure St where
  c : Nat := 2
  maxPeers : Nat := 30
  init : CState := {}
  initRef : RState := []
  threads : List TOp := []
  focus : List Nat := []
  hashes : List Nat := []

def parseOp (maxPeers : Nat) (ts : List String) : Option TOp :=
  match ts with
  | ["ann", _fam, hash, ip, port, event, left, numwant, dl, pidS] =>
    some (.ann ⟨hexNat hash, (hexNat ip, nat! port), statusOf (event = "stopped") (int! left), hexNat pidS, nat! dl,
      clampUdp maxPeers (int! numwant), 0, 0⟩)
  | ["scr", _fam, hs] => some (.scr (hexNatList "," hs))
  | ["cln", now, _, _] => some (.cln (nat! now))
  | _ => none

def initialPc : TOp → Pc
  | .ann a => .annStart a
  | .scr hs => .scr hs []
  | .cln now => .clnSnap now (fun _ => true) 0

/-- the thread pauses here (a gate in a shard the program touches) -/
def yieldsAt (focus : List Nat) : Pc → Bool
  | .annHave a _ => focus.contains (shardOf a.h)
  | .clnTorrents _ _ i _ => focus.contains i
  | .clnRetain _ _ i => decide (i < numShards) && focus.contains i
  | .scr (h :: _) acc => !acc.isEmpty && focus.contains (shardOf h)
  | _ => false

/-- reference effect of the step that thread `pc` is about to take (its linearization points) -/
def refEffect (r : RState) (pc : Pc) : RState :=
  match pc with
  | .annHave a _ => (Ref.announce r a.h a.key a.st a.pid a.dl).1
  | .clnTorrents now _ _ ((h, _) :: _) => r.filter (fun e => !decide (e.hash = h) || decide (now < e.peer.deadline))
  | _ => r

structure Sys where
  s : CState
  pcs : List Pc
  r : RState
  /-- what the reference answers each thread at its linearization points -/
  refOut : List String
  /-- dummy segments left for the (empty) IPv6 map of a cleaning pass -/
  v6 : List Nat

def showCounts (l : List (Nat × Nat)) : String :=
  if l.isEmpty then "-" else String.intercalate "," (l.map (fun (a, b) => s!"{a}:{b}"))

/-- run thread `t` until its next yield point; fuel bounds the silent steps -/
def runSegment (c : Nat) (focus : List Nat) (t : Nat) : Nat → Sys → Except Panic Sys
  | 0, x => .ok x
  | fuel + 1, x =>
    match x.pcs[t]? with
    | none => .ok x
    | some pc =>
      if pc.isDone then
        -- the IPv6 pass of a cleaning thread: gates only
        .ok { x with v6 := x.v6.set t ((x.v6.getD t 0) - 1) }
      else
        -- reference at the linearization point
        let r' := refEffect x.r pc
        let ro := match pc with
          | .annHave a _ =>
            let v := (Ref.announce x.r a.h a.key a.st a.pid a.dl).2
            x.refOut.set t s!"{v.seeders} {v.leechers}"
          | .scr (h :: _) _ =>
            let prev := x.refOut.getD t ""
            let cur := s!"{(Ref.scrape x.r h).1}:{(Ref.scrape x.r h).2}"
            x.refOut.set t (if prev = "" then cur else prev ++ "," ++ cur)
          | _ => x.refOut
        match stepThread c x.s x.pcs t with
        | .error e => .error e
        | .ok (s', pcs') =>
          let x' := { x with s := s', pcs := pcs', r := r', refOut := ro }
          match pcs'[t]? with
          | some pc' => if yieldsAt focus pc' || pc'.isDone then .ok x' else runSegment c focus t fuel x'
          | none => .ok x'

def resultText : Pc → String
  | .doneAnn o => s!"{o.seeders} {o.leechers}"
  | .doneScr l => showCounts l
  | .doneCln => "-"
  | _ => "unfinished"

def step (st : St) (ts : List String) : St × Verdict × List String :=
  match ts with
  | "cprog" :: rest =>
    -- split at "|" and ";"
    let parts := (String.intercalate " " rest).splitOn " | "
    let setupTxt := (parts.headD "-")
    let setup := if setupTxt.trimAscii.toString = "-" then [] else (setupTxt.splitOn " ; ").filterMap (fun p => parseOp st.maxPeers (tokens p))
    let threads := (parts.drop 1).filterMap (fun p => parseOp st.maxPeers (tokens p))
    -- initial state: the setup operations one after the other
    let runAlone (acc : CState × RState) (op : TOp) : CState × RState :=
      let rec go (fuel : Nat) (s : CState) (pc : Pc) (r : RState) : CState × RState :=
        match fuel with
        | 0 => (s, r)
        | f + 1 => if pc.isDone then (s, r) else
          match stepPc st.c s [] pc with
          | .ok (s', pc') => go f s' pc' (refEffect r pc)
          | .error _ => (s, r)
      go 200 acc.1 (initialPc op) acc.2
    let (s0, r0) := setup.foldl runAlone ({}, [])
    let hashesOf (o : TOp) : List Nat := match o with | .ann a => [a.h] | .scr hs => hs | .cln _ => []
    let hs := ((setup ++ threads).flatMap hashesOf).eraseDups
    let sorted := (hs.toArray.qsort (· < ·)).toList
    ({ st with init := s0, initRef := r0, threads := threads, focus := (hs.map shardOf).eraseDups, hashes := sorted },
      .skip, ["history", s!"threads={threads.length}"] ++ (if threads.any (fun o => match o with | .cln _ => true | _ => false) then ["with-clean"] else []))
  | "cfree" :: rest =>
    let (_, out) := splitArrow ("cfree" :: rest)
    if out = ["ok"] then (st, .ok, ["case", "free-running"]) else (st, .specfail "the free-running stress did not terminate (deadlock)", ["case", "free-running"])
  | "csched" :: rest =>
    let (a, out) := splitArrow ("csched" :: rest)
    let sched := match a with | [_, s] => natList "," s | _ => []
    if out = ["HANG"] then (st, .specfail "a thread did not reach its next gate: blocked on a lock (deadlock / lock held across a gap)", ["case", "hang"]) else
    let implParts := (String.intercalate " " out).splitOn " | "
    let n := st.threads.length
    let x0 : Sys := ⟨st.init, st.threads.map initialPc, st.initRef, List.replicate n "",
      st.threads.map (fun o => match o with | .cln _ => 2 * st.focus.length | _ => 0)⟩
    let final := sched.foldl (fun (acc : Except Panic Sys) t => match acc with
      | .error e => .error e
      | .ok x => runSegment st.c st.focus t 100 x) (.ok x0)
    let overtook := sched.length > n   -- some interleaving happened
    let notes := ["case", "sched"] ++ (if overtook then ["interleaved"] else [])
    match final with
    | .error e => (st, .mismatch s!"model=panic:{repr e}", notes)
    | .ok x =>
      let notDone := x.pcs.any (fun pc => !pc.isDone) || x.v6.any (· ≠ 0)
      let modelRes := x.pcs.map resultText
      let refRes := (List.range n).map (fun t => match st.threads[t]? with
        | some (.cln _) => "-"
        | _ => x.refOut.getD t "")
      -- the implementation: counts of each reply (peer lists are checked against the reference's candidates in C02)
      let implRes := (implParts.take n).map (fun p => match tokens p with
        | [a, b, _] => s!"{a} {b}"
        | [x] => x
        | _ => p)
      let implFinal := match implParts.drop n with | [f] => (f.trimAscii.toString.drop 6).toString | _ => "?"
      let refFinal := showCounts (st.hashes.map (fun h => Ref.scrape x.r h))
      let modelFinal := showCounts (st.hashes.map (fun h => match sget x.s.shard h with
        | some (_, pm) => (match pm.counts with | .ok c => c | .error _ => (0, 0)) | none => (0, 0)))
      let lost := decide (implFinal ≠ refFinal)
      if notDone then (st, .mismatch s!"model: the schedule does not run every thread to its end ({modelRes})", notes)
      else if implRes ≠ refRes then (st, .specfail s!"replies are not the reference's at the linearization points: ref={refRes}", notes)
      else if lost then (st, .specfail s!"final state differs from the reference: ref={refFinal} class=lost-update", notes)
      else if implRes ≠ modelRes then (st, .mismatch s!"model={modelRes}", notes)
      else if implFinal ≠ modelFinal then (st, .mismatch s!"model final={modelFinal}", notes)
      else (st, .ok, notes ++ (if x.s.shard.length < st.hashes.length then ["torrent-removed"] else []))
  | _ => (st, .bad "unknown op", [])

def main : IO Unit := do
  let t ← runLoop (← IO.getStdin) step ({} : St) {} 1
  IO.println t.summary

end ConcDrv
