import Aquatic.Model.UringSend
import Driver.Util

open Aquatic Aquatic.UringSend Drv

namespace UringSendDrv

/-- model state and, independently of it, the buffers handed out and not yet completed -/
structure St where
  sb : SB := SB.new 0
  busy : List Nat := []

def step (s : St) (ts : List String) : St × Verdict × List String :=
  let (a, out) := splitArrow ts
  match a with
  | ["cfg", cap] => ({ sb := SB.new (nat! cap), busy := [] }, .ok, ["history", s!"cap={cap}"])
  | ["prep", fits, _] =>
    let (sb', res) := s.sb.prepare (fits = "1")
    let allBusy := s.busy.length ≥ s.sb.free.length
    match out, res with
    | ["ok", i], .ok j =>
      let i := nat! i
      let s' : St := { sb := sb', busy := i :: s.busy }
      if s.busy.contains i then (s', .specfail s!"buffer {i} handed out while its send is still in flight", ["prep-ok"])
      else if i ≠ j then (s', .mismatch s!"model=ok {j}", ["prep-ok"])
      else (s', .ok, ["prep-ok"] ++ (if j > s.sb.likely then ["skipped-taken-buffers"] else []))
    | ["ok", i], _ =>
      let i := nat! i
      let s' : St := { sb := ⟨s.sb.free.set i false, i + 1⟩, busy := i :: s.busy }
      if s.busy.contains i then (s', .specfail s!"buffer {i} handed out while its send is still in flight", ["prep-ok"])
      else (s', .mismatch s!"model={repr res}", ["prep-ok"])
    | ["nobuf"], .noBuffers => ({ s with sb := sb' }, .ok, ["prep-nobuf"] ++ (if allBusy then ["all-in-flight"] else ["free-buffer-before-hint"]))
    | ["serfail"], .serFailed => ({ s with sb := sb' }, .ok, ["prep-serfail"])
    | "PANIC" :: _, _ => (s, .specfail s!"prepare_entry panicked: {out}", ["prep-panic"])
    | _, _ => ({ s with sb := sb' }, .mismatch s!"model={repr res}", ["prep-other"])
  | ["free", i] =>
    let i := nat! i
    match out, s.sb.markFree i with
    | ["ok"], .ok sb' => ({ sb := sb', busy := s.busy.filter (· ≠ i) }, .ok, ["free"] ++ (if s.busy.contains i then ["free-in-flight"] else ["free-idle"]))
    | "PANIC" :: _, .error _ => (s, .ok, ["free-out-of-range"])
    | "PANIC" :: _, .ok _ => (s, .specfail s!"mark_buffer_as_free panicked on an index in range: {out}", ["free"])
    | _, .ok sb' => ({ sb := sb', busy := s.busy.filter (· ≠ i) }, .mismatch "model=ok", ["free"])
    | _, .error _ => (s, .mismatch "model=panic(index)", ["free"])
  | ["reset"] => ({ s with sb := s.sb.reset }, .ok, ["reset"])
  | _ => (s, .bad "unknown op", [])

def main : IO Unit := do
  let t ← runLoop (← IO.getStdin) step {} {} 1
  IO.println t.summary

end UringSendDrv
