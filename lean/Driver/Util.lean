/-
  Line-protocol helpers shared by all drivers (core Lean only).
-/
namespace Drv

def tokens (line : String) : List String :=
  (line.trimAscii.toString.splitOn " ").filter (· ≠ "")

/-- split a line at the token `=>` into (input tokens, impl-output tokens) -/
def splitArrow (ts : List String) : List String × List String :=
  let rec go (acc : List String) : List String → List String × List String
    | [] => (acc.reverse, [])
    | "=>" :: r => (acc.reverse, r)
    | t :: r => go (t :: acc) r
  go [] ts

def nat! (s : String) : Nat := s.toNat?.getD 0
def int! (s : String) : Int := s.toInt?.getD 0

def sepList (sep : String) (s : String) : List String :=
  if s = "-" ∨ s = "" then [] else s.splitOn sep

def natList (sep : String) (s : String) : List Nat := (sepList sep s).map nat!

def hexDigit (c : Char) : Option Nat :=
  if '0' ≤ c ∧ c ≤ '9' then some (c.toNat - '0'.toNat)
  else if 'a' ≤ c ∧ c ≤ 'f' then some (c.toNat - 'a'.toNat + 10)
  else if 'A' ≤ c ∧ c ≤ 'F' then some (c.toNat - 'A'.toNat + 10)
  else none

/-- hex string → bytes; `-` is the empty string -/
def hexBytes (s : String) : List UInt8 :=
  if s = "-" then [] else
  let rec go : List Char → List UInt8
    | a :: b :: r =>
      match hexDigit a, hexDigit b with
      | some x, some y => (UInt8.ofNat (x * 16 + y)) :: go r
      | _, _ => []
    | _ => []
  go s.toList

/-- big-endian hex string → number -/
def hexNat (s : String) : Nat :=
  s.toList.foldl (fun acc c => acc * 16 + (hexDigit c).getD 0) 0

def hexNatList (sep : String) (s : String) : List Nat := (sepList sep s).map hexNat

/-- number → big-endian hex string of `digits` hex digits -/
def natHex (digits : Nat) (n : Nat) : String :=
  let d (k : Nat) : Char := if k < 10 then Char.ofNat (48 + k) else Char.ofNat (87 + k)
  String.ofList ((List.range digits).reverse.map (fun i => d ((n / 16 ^ i) % 16)))

def hexOfByte (b : UInt8) : String :=
  let d (n : Nat) : Char := if n < 10 then Char.ofNat (48 + n) else Char.ofNat (87 + n)
  String.ofList [d (b.toNat / 16), d (b.toNat % 16)]

def bytesHex (bs : List UInt8) : String :=
  if bs.isEmpty then "-" else String.join (bs.map hexOfByte)

structure Tally where
  lines      : Nat := 0
  ok         : Nat := 0
  mismatch   : Nat := 0
  specfail   : Nat := 0
  bad        : Nat := 0
  notes      : List (String × Nat) := []

def Tally.bump (t : Tally) (k : String) (n : Nat := 1) : Tally :=
  let rec go : List (String × Nat) → List (String × Nat)
    | [] => [(k, n)]
    | (k', v) :: r => if k' = k then (k', v + n) :: r else (k', v) :: go r
  { t with notes := go t.notes }

def Tally.summary (t : Tally) : String :=
  let notes := String.intercalate "," (t.notes.map (fun (k, v) => s!"\"{k}\":{v}"))
  s!"SUMMARY \{\"lines\":{t.lines},\"ok\":{t.ok},\"mismatch\":{t.mismatch},\"specfail\":{t.specfail},\"bad\":{t.bad},\"dist\":\{{notes}}}"

inductive Verdict where
  | ok
  | mismatch (msg : String)
  | specfail (msg : String)
  | bad (msg : String)
  | skip

def Tally.record (t : Tally) (v : Verdict) : Tally :=
  match v with
  | .ok => { t with lines := t.lines + 1, ok := t.ok + 1 }
  | .mismatch _ => { t with lines := t.lines + 1, mismatch := t.mismatch + 1 }
  | .specfail _ => { t with lines := t.lines + 1, specfail := t.specfail + 1 }
  | .bad _ => { t with lines := t.lines + 1, bad := t.bad + 1 }
  | .skip => t

def Verdict.render (lineNo : Nat) (line : String) : Verdict → Option String
  | .ok => none
  | .skip => none
  | .mismatch m => some s!"MISMATCH line={lineNo} {m} :: {line.trimAscii.toString}"
  | .specfail m => some s!"SPECFAIL line={lineNo} {m} :: {line.trimAscii.toString}"
  | .bad m => some s!"BADLINE line={lineNo} {m} :: {line.trimAscii.toString}"

def fnv (h : UInt64) (s : String) : UInt64 :=
  s.toList.foldl (fun h c => (h ^^^ (UInt64.ofNat c.toNat)) * 1099511628211) h

structure Hist where
  hash  : UInt64 := 14695981039346656037
  notes : List String := []
  lines : Nat := 0

def Hist.flush (h : Hist) : IO Unit :=
  if h.lines = 0 then pure () else
    IO.println s!"H {h.hash} {h.lines} {String.intercalate "," h.notes}"

def Hist.add (h : Hist) (inp : List String) (notes : List String) : Hist :=
  { hash := inp.foldl (fun a t => fnv (fnv a t) " ") h.hash,
    notes := notes.foldl (fun acc n => if acc.contains n then acc else acc ++ [n]) h.notes,
    lines := h.lines + 1 }

/-- generic loop: `step` consumes a line and returns the new state, a verdict and
distribution notes.  A note `history` marks the start of a new case (history),
a note `case` marks a single-line case.  For every case a line
`H <hash of the input tokens> <lines> <notes>` is printed, from which the
runner counts distinct non-trivial cases. -/
partial def runLoop {σ : Type} (h : IO.FS.Stream) (step : σ → List String → σ × Verdict × List String)
    (s : σ) (t : Tally) (lineNo : Nat) (hist : Hist := {}) : IO Tally := do
  let line ← h.getLine
  if line.isEmpty then
    hist.flush
    return t
  let ts := tokens line
  if ts.isEmpty then runLoop h step s t (lineNo + 1) hist
  else
    let (s', v, notes) :=
      match (splitArrow ts).2 with
      | "PANIC" :: msg => (s, Verdict.specfail s!"implementation panicked: {String.intercalate " " msg}", ["impl-panic"])
      | _ => step s ts
    match v.render lineNo line with
    | some msg => IO.println msg
    | none => pure ()
    let t := notes.foldl (fun t k => t.bump k) (t.record v)
    let inp := (splitArrow ts).1
    let vnote := match v with
      | .mismatch _ => ["MISMATCH"] | .specfail _ => ["SPECFAIL"] | .bad _ => ["BAD"] | _ => []
    if notes.contains "history" then
      hist.flush
      runLoop h step s' t (lineNo + 1) (({} : Hist).add inp [])
    else if notes.contains "case" then
      hist.flush
      (({} : Hist).add inp ((notes.filter (· ≠ "case")) ++ vnote)).flush
      runLoop h step s' t (lineNo + 1) {}
    else
      runLoop h step s' t (lineNo + 1) (hist.add inp (notes ++ vnote))

end Drv
