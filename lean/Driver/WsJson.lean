/- Driver for the WebTorrent JSON codec traces (C15). -/
import Aquatic.Model.WsJson
import Driver.Util

open Aquatic Drv

namespace WsJsonDrv

/-- hex of UTF-8 → code points (`-` = empty) -/
def cpsOfHex (h : String) : List Nat :=
  if h = "-" ∨ h = "~" then [] else
  match String.fromUTF8? (ByteArray.mk (hexBytes h).toArray) with
  | some s => s.toList.map Char.toNat
  | none => []

def hexOfCps (cps : List Nat) (empty : String := "-") : String :=
  if cps.isEmpty then empty else
  bytesHex (String.ofList (cps.map Char.ofNat)).toUTF8.toList

def idOfHex (h : String) : List Nat := (hexBytes h).map UInt8.toNat
def hexOfId (b : List Nat) : String := String.join (b.map (fun x => hexOfByte (UInt8.ofNat x)))

partial def parseJ : List String → Option (J × List String)
  | [] => none
  | tok :: rest =>
    let c := tok.take 1
    let arg := (tok.drop 1).toString
    match c.toString with
    | "n" => some (.null, rest)
    | "t" => some (.bool true, rest)
    | "f" => some (.bool false, rest)
    | "i" => some (.num (nat! arg), rest)
    | "x" => some (.other, rest)
    | "s" => some (.str (cpsOfHex arg), rest)
    | "a" =>
      let rec elems (k : Nat) (ts : List String) (acc : List J) : Option (List J × List String) :=
        if k = 0 then some (acc.reverse, ts) else
        match parseJ ts with
        | some (j, ts') => elems (k - 1) ts' (j :: acc)
        | none => none
      (elems (nat! arg) rest []).map (fun (l, ts) => (.arr l, ts))
    | "o" =>
      let rec entries (k : Nat) (ts : List String) (acc : List (List Nat × J)) : Option (List (List Nat × J) × List String) :=
        if k = 0 then some (acc.reverse, ts) else
        match parseJ ts with
        | some (.str key, ts') =>
          (match parseJ ts' with
           | some (j, ts'') => entries (k - 1) ts'' ((key, j) :: acc)
           | none => none)
        | _ => none
      (entries (nat! arg) rest []).map (fun (kv, ts) => (.obj kv, ts))
    | _ => none

partial def renderJ : J → List String
  | .null => ["n"]
  | .bool true => ["t"]
  | .bool false => ["f"]
  | .num n => [s!"i{n}"]
  | .other => ["x"]
  | .str s => [s!"s{hexOfCps s}"]
  | .arr l => s!"a{l.length}" :: (l.map renderJ).flatten
  | .obj kv => s!"o{kv.length}" :: (kv.map (fun (k, v) => s!"s{hexOfCps k}" :: renderJ v)).flatten

/-- canonical text with object keys sorted (for comparing hash-map backed objects) -/
partial def renderSorted : J → String
  | .arr l => "a[" ++ String.intercalate "," (l.map renderSorted) ++ "]"
  | .obj kv =>
    let items := kv.map (fun (k, v) => s!"{hexOfCps k}:{renderSorted v}")
    "o{" ++ String.intercalate "," (items.toArray.qsort (· < ·)).toList ++ "}"
  | j => String.intercalate "," (renderJ j)

def optNat (s : String) : Option Nat := if s = "-" then none else s.toNat?

def evOf : String → Option WsEvent
  | "started" => some .started | "stopped" => some .stopped | "completed" => some .completed
  | "update" => some .update | _ => none
def evName : WsEvent → String
  | .started => "started" | .stopped => "stopped" | .completed => "completed" | .update => "update"

def inOfText (s : String) : Option InMsg :=
  match s.splitOn "|" with
  | ["A", ih, pid, left, ev, offers, nw, ans, to, oid] =>
    let offs : Option (List WsOffer) := if offers = "-" then none else
      some ((offers.splitOn "/").drop 1 |>.map (fun o => match o.splitOn ":" with
        | [i, sd] => ⟨cpsOfHex sd, idOfHex i⟩ | _ => ⟨[], []⟩))
    some (.announce ⟨idOfHex ih, idOfHex pid, optNat left, evOf ev, offs, optNat nw,
      (if ans = "-" then none else some (cpsOfHex ans)),
      (if to = "-" then none else some (idOfHex to)), (if oid = "-" then none else some (idOfHex oid))⟩)
  | ["S", h] =>
    if h = "-" then some (.scrape none)
    else if h.startsWith "1/" then some (.scrape (some (.single (idOfHex (h.drop 2).toString))))
    else some (.scrape (some (.multiple (((h.splitOn "/").drop 1).map idOfHex))))
  | _ => none

def inText : InMsg → String
  | .announce a =>
    let offers := match a.offers with
      | none => "-"
      | some l => s!"{l.length}" ++ String.join (l.map (fun (o : WsOffer) => s!"/{hexOfId o.offerId}:{hexOfCps o.sdp "~"}"))
    let o (x : Option Nat) := match x with | some n => toString n | none => "-"
    let i (x : Option (List Nat)) := match x with | some b => hexOfId b | none => "-"
    s!"A|{hexOfId a.infoHash}|{hexOfId a.peerId}|{o a.bytesLeft}|{match a.event with | some e => evName e | none => "-"}|{offers}|{o a.numwant}|{match a.answer with | some s => hexOfCps s "~" | none => "-"}|{i a.answerToPeerId}|{i a.answerOfferId}"
  | .scrape none => "S|-"
  | .scrape (some (.single h)) => s!"S|1/{hexOfId h}"
  | .scrape (some (.multiple hs)) => "S|m" ++ String.join (hs.map (fun h => s!"/{hexOfId h}"))

def outOfText (s : String) : Option OutMsg :=
  match s.splitOn "|" with
  | ["OF", pid, ih, sd, oid] => some (.offer (idOfHex pid) (idOfHex ih) (cpsOfHex sd) (idOfHex oid))
  | ["AN", pid, ih, sd, oid] => some (.answer (idOfHex pid) (idOfHex ih) (cpsOfHex sd) (idOfHex oid))
  | ["AR", ih, c, i, n] => some (.announce (idOfHex ih) (nat! c) (nat! i) (nat! n))
  | ["SR", files] =>
    some (.scrape (if files = "" then [] else (files.splitOn "/").map (fun f => match f.splitOn "=" with
      | [h, st] => (match st.splitOn ":" with
          | [c, i, d] => (idOfHex h, nat! c, nat! i, nat! d) | _ => (idOfHex h, 0, 0, 0))
      | _ => ([], 0, 0, 0))))
  | ["ER", reason, action, ih] =>
    some (.error (cpsOfHex reason) (match action with | "announce" => some 0 | "scrape" => some 1 | _ => none)
      (if ih = "-" then none else some (idOfHex ih)))
  | _ => none

def outText : OutMsg → String
  | .offer p i s o => s!"OF|{hexOfId p}|{hexOfId i}|{hexOfCps s "~"}|{hexOfId o}"
  | .answer p i s o => s!"AN|{hexOfId p}|{hexOfId i}|{hexOfCps s "~"}|{hexOfId o}"
  | .announce i c n k => s!"AR|{hexOfId i}|{c}|{n}|{k}"
  | .scrape files =>
    let items := files.map (fun (h, c, i, d) => s!"{hexOfId h}={c}:{i}:{d}")
    "SR|" ++ String.intercalate "/" (items.toArray.qsort (· < ·)).toList
  | .error r a i =>
    s!"ER|{hexOfCps r "~"}|{match a with | some 0 => "announce" | some _ => "scrape" | none => "-"}|{match i with | some h => hexOfId h | none => "-"}"

def step (_ : Unit) (ts : List String) : Unit × Verdict × List String :=
  let (a, out) := splitArrow ts
  let impl := String.intercalate " " out
  match a with
  | ["id20", h] =>
    let chars := cpsOfHex h
    let model := match de20 chars with | .ok b => s!"ok {hexOfId b}" | .error _ => "err"
    -- the property's words: exactly the strings of 20 characters in U+0000–U+00FF
    let spec := if chars.length = 20 ∧ chars.all (· ≤ 255) then s!"ok {hexOfId chars}" else "err"
    let notes := ["case", "id20", s!"len{if chars.length < 20 then "<20" else if chars.length = 20 then "=20" else ">20"}"]
      ++ (if chars.any (· > 255) then ["char>U+00FF"] else [])
    let cls := if chars.length > 20 ∧ (chars.take 20).all (· ≤ 255) then " class=overlong-identifier-truncated" else ""
    if spec ≠ impl then ((), .specfail s!"spec={spec}{cls}", notes)
    else if model ≠ impl then ((), .mismatch s!"model={model}", notes)
    else ((), .ok, notes)
  | ["ser20", h] =>
    let b := idOfHex h
    let model := hexOfCps (ser20 b)
    let spec := b.length = 20 ∧ (cpsOfHex impl).length = 20 ∧ (cpsOfHex impl) = b
    if !spec then ((), .specfail "not 20 characters equal to the bytes", ["case", "ser20"])
    else if model ≠ impl then ((), .mismatch s!"model={model}", ["case", "ser20"])
    else ((), .ok, ["case", "ser20"])
  | ["in", j] =>
    match parseJ (j.splitOn ",") with
    | some (jv, _) =>
      let model := match inOfJ jv with | some m => s!"ok {inText m}" | none => "err"
      let notes := ["case", "in", if impl.startsWith "ok A" then "in-announce" else if impl.startsWith "ok S" then "in-scrape" else "in-rejected"]
      -- the value is exactly the encoding of a message (what the writer produces for it): the round-trip clause
      -- of the property says the decoder must give that message back
      let isEncodingOf := match inOfJ jv with
        | some m => renderSorted (inToJ m) == renderSorted jv
        | none => false
      if impl.startsWith "TEXT-BINARY-DIFFER" then ((), .specfail "text and binary frames decode differently", notes)
      else if isEncodingOf && model != impl then ((), .specfail s!"the encoding of a message does not decode back to it: expected {model}", notes)
      else if model ≠ impl then ((), .mismatch s!"model={model}", notes) else ((), .ok, notes)
    | none => ((), .bad "J", [])
  | ["ins", m] =>
    match inOfText m with
    | some msg =>
      let model := String.intercalate "," (renderJ (inToJ msg))
      -- round trip on the model side is the theorem; here: the real writer's value decodes back (spec)
      let back := match parseJ (impl.splitOn ",") with
        | some (jv, _) => inOfJ jv
        | none => none
      let notes := ["case", "ins"] ++ (match msg with | .announce a => (if a.offers.isSome then ["with-offers"] else []) ++ (if a.answer.isSome then ["with-answer"] else []) | .scrape _ => ["scrape"])
      if back ≠ some msg then ((), .specfail "the written JSON does not decode to the message", notes)
      else if model ≠ impl then ((), .mismatch s!"model={model}", notes) else ((), .ok, notes)
    | none => ((), .bad "inmsg", [])
  | ["out", j] =>
    match parseJ (j.splitOn ",") with
    | some (jv, _) =>
      let model := match outOfJ jv with | some m => s!"ok {outText m}" | none => "err"
      let notes := ["case", "out", if impl.startsWith "ok" then "out-accepted" else "out-rejected"]
      let isEncodingOf := match outOfJ jv with
        | some m => renderSorted (outToJ m) == renderSorted jv
        | none => false
      if impl.startsWith "TEXT-BINARY-DIFFER" then ((), .specfail "text and binary frames decode differently", notes)
      else if isEncodingOf && model != impl then ((), .specfail s!"the encoding of a message does not decode back to it: expected {model}", notes)
      else if model ≠ impl then ((), .mismatch s!"model={model}", notes) else ((), .ok, notes)
    | none => ((), .bad "J", [])
  | ["outs", m] =>
    match outOfText m with
    | some msg =>
      let back := match parseJ (impl.splitOn ",") with
        | some (jv, _) => (outOfJ jv).map outText
        | none => none
      let implSorted := match parseJ (impl.splitOn ",") with | some (jv, _) => renderSorted jv | none => "?"
      let notes := ["case", "outs", (m.take 2).toString]
      if back ≠ some (outText msg) then ((), .specfail "the written JSON does not decode to the message", notes)
      else if renderSorted (outToJ msg) ≠ implSorted then ((), .mismatch s!"model={String.intercalate "," (renderJ (outToJ msg))}", notes)
      else ((), .ok, notes)
    | none => ((), .bad "outmsg", [])
  | _ => ((), .bad "unknown op", [])

def main : IO Unit := do
  let t ← runLoop (← IO.getStdin) step () {} 1
  IO.println t.summary

end WsJsonDrv
