/- Driver for the address traces (C03). -/
import Aquatic.Model.Forwarded
import Driver.Util

open Aquatic Drv

namespace AddrDrv

structure St where
  ipdefs : List (HBytes × Option Ip) := []

def ipOf (fam h : String) : Ip :=
  if fam = "4" then .v4 (hexNat h)
  else .v6 (hexNat (String.ofList (h.toList.take 24))) (hexNat (String.ofList (h.toList.drop 24)))

def ipText : Ip → String
  | .v4 a => s!"4 {natHex 8 a}"
  | .v6 hi lo => s!"6 {natHex 24 hi}{natHex 8 lo}"

def step (s : St) (ts : List String) : St × Verdict × List String :=
  let (a, out) := splitArrow ts
  let impl := String.intercalate " " out
  match a with
  | ["can", fam, h] =>
    let ip := ipOf fam h
    let model := ipText (canonical ip)
    -- the property: an IPv4-mapped source is the embedded IPv4 address; everything else is itself
    let spec := match ip with
      | .v6 hi lo => if hi = 0xffff then ipText (.v4 lo) else ipText ip
      | _ => ipText ip
    let notes := ["case", "can"] ++ (match ip with | .v6 hi _ => (if hi = 0xffff then ["v4-mapped"] else ["v6"]) | _ => ["v4"])
    if spec ≠ impl then (s, .specfail s!"spec={spec}", notes)
    else if model ≠ impl then (s, .mismatch s!"model={model}", notes)
    else (s, .ok, notes)
  | ["wsf", fam, h] =>
    let ip := ipOf fam h
    let model := if wsFamilyV4 ip then "4" else "6"
    let spec := if (canonical ip).isV4 then "4" else "6"     -- must agree with UDP/HTTP
    let notes := ["case", "wsf"] ++ (match ip with | .v6 hi _ => (if hi = 0xffff then ["v4-mapped"] else ["v6"]) | _ => ["v4"])
    if spec ≠ impl then (s, .specfail s!"spec={spec}", notes)
    else if model ≠ impl then (s, .mismatch s!"model={model}", notes)
    else (s, .ok, notes)
  | ["ipdef", th] =>
    let v : Option Ip := match out with
      | [fam, h] => some (ipOf fam h)
      | _ => none
    ({ s with ipdefs := (hexBytes th, v) :: s.ipdefs }, .skip, [])
  | ["fwd", nameh, hs] =>
    let name := String.ofList ((hexBytes nameh).map (fun b => Char.ofNat b.toNat))
    let headers : List (String × HBytes) := (sepList ";" hs).map (fun h =>
      match h.splitOn ":" with
      | [n, v] => (String.ofList ((hexBytes n).map (fun b => Char.ofNat b.toNat)), hexBytes v)
      | _ => ("", []))
    -- the std IP parser as learnt from the `ipdef` lines of this run
    let known (t : HBytes) : Bool := s.ipdefs.any (fun x => x.1 = t)
    let parseIp (t : HBytes) : Option Ip := ((s.ipdefs.find? (fun x => x.1 = t)).map (·.2)).join
    match forwardedText name headers with
    | some t =>
      if !known t then (s, .bad s!"text not in ipdef pool: {bytesHex t}", [])
      else
        let model := match forwardedIp parseIp name headers with
          | some ip => s!"ok {ipText ip}"
          | none => "err"
        let notes := ["case", "fwd", "header-present"]
          ++ (if (headers.filter (fun x => x.1 = name)).length > 1 then ["several-occurrences"] else [])
          ++ (if (lastHeader name headers).any (fun v => v.contains 44) then ["comma-list"] else [])
          ++ (if impl.startsWith "ok" then ["fwd-ok"] else ["fwd-err"])
        if model ≠ impl then (s, .mismatch s!"model={model}", notes) else (s, .ok, notes)
    | none =>
      let notes := ["case", "fwd", "header-absent"]
      if impl ≠ "err" then (s, .mismatch "model=err (header not present)", notes) else (s, .ok, notes)
  | _ => (s, .bad "unknown op", [])

def main : IO Unit := do
  let t ← runLoop (← IO.getStdin) step ({} : St) {} 1
  IO.println t.summary

end AddrDrv
