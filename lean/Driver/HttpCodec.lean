/- Driver for the HTTP protocol library traces (C14; the malformed stream also serves C12). -/
import Aquatic.Spec.Bencode
import Driver.Util

open Aquatic Aquatic.Http Aquatic.Bencode Drv

namespace HttpCodecDrv

def cpsOfHex (h : String) : List Nat :=
  if h = "-" ∨ h = "~" then [] else
  match String.fromUTF8? (ByteArray.mk (hexBytes h).toArray) with
  | some s => s.toList.map Char.toNat
  | none => []

def hexOfCps (cps : List Nat) (empty : String := "~") : String :=
  if cps.isEmpty then empty else bytesHex (String.ofList (cps.map Char.ofNat)).toUTF8.toList

def bytesOfHex (h : String) : List Nat := (hexBytes h).map UInt8.toNat
def hexOfBytes (b : List Nat) : String := String.join (b.map (fun x => hexOfByte (UInt8.ofNat x)))

/-- `urlencoding::decode` (trusted external): percent-decoding, the result must be UTF-8 -/
def urlDecode (s : List Nat) : Option (List Nat) :=
  let rec go : List Nat → Option (List UInt8)
    | [] => some []
    | 37 :: a :: b :: t =>
      (match hexVal a, hexVal b with
       | some x, some y => (go t).map (fun r => UInt8.ofNat (x * 16 + y) :: r)
       -- urlencoding leaves an invalid escape as it is
       | _, _ => (go (a :: b :: t)).map (fun r => 37 :: r))
    | c :: t => (go t).map (fun r => (String.singleton (Char.ofNat c)).toUTF8.toList ++ r)
  match go s with
  | some bytes => (String.fromUTF8? (ByteArray.mk bytes.toArray)).map (fun x => x.toList.map Char.toNat)
  | none => none

def evIdx : String → Nat
  | "started" => 0 | "stopped" => 1 | "completed" => 2 | _ => 3
def evName : Nat → String
  | 0 => "started" | 1 => "stopped" | 2 => "completed" | _ => "empty"

def reqText : Req → String
  | .announce a =>
    let nw := match a.numwant with | some n => toString n | none => "-"
    let k := match a.key with | some k => hexOfCps k | none => "-"
    s!"announce {hexOfBytes a.infoHash} {hexOfBytes a.peerId} {a.port} {a.uploaded} {a.downloaded} {a.left} {evName a.event} {nw} {k}"
  | .scrape hs => "scrape " ++ String.intercalate "," (hs.map hexOfBytes)

def reqOfTokens : List String → Option Req
  | ["announce", ih, pid, port, ul, dl, left, ev, nw, key] =>
    some (.announce ⟨bytesOfHex ih, bytesOfHex pid, nat! port, nat! ul, nat! dl, nat! left, evIdx ev,
      (if nw = "-" then none else some (nat! nw)), (if key = "-" then none else some (cpsOfHex key))⟩)
  | ["scrape", hs] => some (.scrape ((sepList "," hs).map bytesOfHex))
  | _ => none

def parsePeers (s : String) : List HPeer :=
  (sepList ";" s).map (fun p => match p.splitOn ":" with | [a, b] => ⟨bytesOfHex a, nat! b⟩ | _ => ⟨[], 0⟩)

structure St where
  lastWritten : Option Req := none

def step (s : St) (ts : List String) : St × Verdict × List String :=
  let (a, out) := splitArrow ts
  let impl := String.intercalate " " out
  match a with
  | "hq" :: rest =>
    match reqOfTokens rest, out with
    | some r, [ph, kh] =>
      let encKey := cpsOfHex kh
      let model := match r with
        | .announce x => writeAnnouncePath (fun _ => encKey) x
        | .scrape hs => writeScrapePath hs
      let notes := ["case", "hq", match r with | .announce x => (if x.key.isSome then "hq-announce+key" else "hq-announce") | .scrape _ => "hq-scrape"]
      -- contract of the trusted url-encoder: decodes back, and contains no '&' / '='
      let keyOk := match r with
        | .announce x => (match x.key with | some k => urlDecode encKey = some k ∧ ¬ encKey.contains 38 ∧ ¬ encKey.contains 61 | none => true)
        | _ => true
      if !keyOk then ({ lastWritten := some r }, .bad "urlencoding contract", notes)
      else if hexOfCps model "-" ≠ ph then ({ lastWritten := some r }, .mismatch s!"model={hexOfCps model "-"}", notes)
      else ({ lastWritten := some r }, .ok, notes)
    | _, _ => (s, .bad "hq", [])
  | ["hp", ph] =>
    let p := cpsOfHex ph
    let model := match parsePath urlDecode p with | some r => s!"ok {reqText r}" | none => "err"
    let notes := ["case", "hp", if impl.startsWith "ok announce" then "hp-announce" else if impl.startsWith "ok scrape" then "hp-scrape" else "hp-rejected"]
      ++ (if s.lastWritten.isSome then ["hp-roundtrip"] else [])
    -- a request the library wrote must parse back to an equal request
    let spec := match s.lastWritten with | some r => some s!"ok {reqText r}" | none => none
    if spec.isSome ∧ spec ≠ some impl then ({}, .specfail s!"written request does not parse back: expected {spec.getD ""}", notes)
    -- the parse the property mandates is the model's (C14: identifiers exact, parameter order and unknown
    -- keys irrelevant, well-formed strings split exactly): a different answer is a failing input
    else if model ≠ impl then ({}, .specfail s!"mandated parse={model}", notes)
    else ({}, .ok, notes)
  | "hs" :: rest =>
    match out with
    | [bh, back] =>
      let implBytes := bytesOfHex bh
      let backExpected := String.intercalate "|" rest
      match rest with
      | ["announce", c, i, n, p4, p6, w] =>
        let r : AnnounceResp := ⟨nat! c, nat! i, nat! n, parsePeers p4, parsePeers p6,
          (if w = "-" then none else some (if w = "~" then [] else bytesOfHex w))⟩
        let notes := ["case", "hs", "hs-announce"] ++ (if r.warning.isSome then ["warning"] else []) ++ (if !r.peers6.isEmpty then ["peers6"] else [])
        if (announceValue r).enc ≠ implBytes then ({}, .specfail s!"bencode={hexOfBytes (announceValue r).enc}", notes)
        else if back ≠ backExpected then ({}, .specfail s!"reply does not parse back: {back}", notes)
        else if writeAnnounceResp r ≠ implBytes then ({}, .mismatch s!"model={hexOfBytes (writeAnnounceResp r)}", notes)
        else ({}, .ok, notes)
      | ["scrape", files] =>
        let fs : List (S × Nat × Nat × Nat) := (sepList "," files).map (fun f => match f.splitOn "=" with
          | [h, st] => (match st.splitOn ":" with
              | [c, d, i] => (bytesOfHex h, nat! c, nat! d, nat! i) | _ => (bytesOfHex h, 0, 0, 0))
          | _ => ([], 0, 0, 0))
        let notes := ["case", "hs", "hs-scrape"] ++ (if fs.any (fun f => f.2.2.1 ≠ 0) then ["downloaded≠0"] else [])
        let cls := if fs.any (fun f => f.2.2.1 ≠ 0) then " class=scrape-downloaded-written-as-zero" else ""
        if (scrapeValue fs).enc ≠ implBytes then ({}, .specfail s!"bencode={hexOfBytes (scrapeValue fs).enc}{cls}", notes)
        else if back ≠ backExpected then ({}, .specfail s!"reply does not parse back: {back}{cls}", notes)
        else if writeScrapeResp fs ≠ implBytes then ({}, .mismatch s!"model={hexOfBytes (writeScrapeResp fs)}", notes)
        else ({}, .ok, notes)
      | ["failure", rh] =>
        let reason := if rh = "~" then [] else bytesOfHex rh
        let notes := ["case", "hs", "hs-failure"]
        if (failureValue reason).enc ≠ implBytes then ({}, .specfail s!"bencode={hexOfBytes (failureValue reason).enc}", notes)
        else if back ≠ backExpected then ({}, .specfail s!"reply does not parse back: {back}", notes)
        else if writeFailureResp reason ≠ implBytes then ({}, .mismatch s!"model={hexOfBytes (writeFailureResp reason)}", notes)
        else ({}, .ok, notes)
      | _ => (s, .bad "hs kind", [])
    | _ => (s, .bad "hs", [])
  | _ => (s, .bad "unknown op", [])

def main : IO Unit := do
  let t ← runLoop (← IO.getStdin) step ({} : St) {} 1
  IO.println t.summary

end HttpCodecDrv
