/- Driver for the socket-level UDP traces (C06; also C18 for UDP, C11's gate, C03, C05 on the wire). -/
import Aquatic.Model.UdpHandle
import Driver.Util

open Aquatic Aquatic.Bep15 Aquatic.UdpCodec Aquatic.UdpHandle Drv

namespace UdpNetDrv

structure St where
  uring : Bool := false
  maxScrape : Nat := 70
  maxPeers : Nat := 30
  mode : String := "off"
  list : List Nat := []

def ipOfHex (h : String) : Ip :=
  if h.length = 8 then .v4 (hexNat h)
  else .v6 (hexNat (String.ofList (h.toList.take 24))) (hexNat (String.ofList (h.toList.drop 24)))

def kindText : ReplyKind → String
  | .connect => "connect" | .announce v6 => (if v6 then "announce6" else "announce4")
  | .scrape n => s!"scrape{n}" | .error => "error"

def step (s : St) (ts : List String) : St × Verdict × List String :=
  let (a, out) := splitArrow ts
  match a, out with
  | ["cfg", "udpnet", backend, ms, mp, _age, mode, list], _ =>
    ({ uring := backend = "uring", maxScrape := nat! ms, maxPeers := nat! mp, mode := mode, list := hexNatList "," list },
     .skip, ["history", s!"backend={backend}", s!"acl={mode}"])
  | "net" :: rest, _ => (s, .specfail s!"tracker process: {rest}", ["net-problem"])
  | ["refused", backend, ms, mp], res =>
    -- the tracker's run() returned at start-up
    let ok := acceptsCfg (backend = "uring") (nat! mp) (nat! ms)
    if ok then (s, .specfail s!"an acceptable configuration was refused / start-up failed: {res}", ["refused"])
    else (s, .ok, ["refused", "cfg-refused-as-modelled"])
  | ["big", client, ip, mp], [replies] =>
    -- C18: the configuration was accepted, so its largest announce reply must arrive whole
    let src := ipOfHex ip
    let got : List (String × Bytes) := (sepList ";" replies).map (fun r => match r.splitOn ":" with
      | [c, h] => (c, hexBytes h) | _ => ("?", []))
    let want := replyLen (.announce (!(canonical src).isV4)) (nat! mp) 0
    let notes := ["big", s!"backend={if s.uring then "uring" else "mio"}"]
    let accepted := acceptsCfg s.uring (nat! mp) s.maxScrape
    let cls := s!" class=udp-{if s.uring then "uring" else "mio"}-announce-reply-exceeds-send-buffer"
    match got with
    | [(c, rb)] =>
      if c ≠ client then (s, .specfail "reply to another client", notes)
      else if rb.length ≠ want then (s, .specfail s!"announce reply of {rb.length} bytes, {want} expected{cls}", notes)
      else if !accepted then (s, .mismatch "model: this configuration is refused at start-up", notes)
      else (s, .ok, notes)
    | [] => (s, .specfail s!"the accepted configuration's largest announce reply ({want} bytes) was not delivered{cls}", notes)
    | _ => (s, .specfail "several replies", notes)
  | ["dg", client, ip, idclass, dh], [replies] =>
    let b := hexBytes dh
    let src := ipOfHex ip
    let allowed (h : Nat) : Bool := match s.mode with
      | "allow" => s.list.contains h | "deny" => !s.list.contains h | _ => true
    let ctx : Ctx := ⟨s.maxScrape, fun _ _ => idclass = "own", allowed⟩
    -- what the property demands (no back end, no buffers): the mio decision is the contract itself
    let spec := handleMio ctx src 1 b
    let model := if s.uring then handleUring ctx src 1 b else spec
    let got : List (String × Bytes) := (sepList ";" replies).map (fun r => match r.splitOn ":" with
      | [c, h] => (c, hexBytes h) | _ => ("?", []))
    let describe (g : List (String × Bytes)) : String :=
      match g with
      | [] => "none"
      | [(c, rb)] =>
        -- a client on an IPv4 address is served by the IPv4 swarm even through a dual-stack socket
        (match decResponse rb (!(canonical src).isV4) with
         | some (.connect tid _) => s!"{c}:connect:{tid}:len{rb.length}"
         | some (.announce v6 tid _ _ _ peers) => s!"{c}:announce{if v6 then "6" else "4"}:{tid}:peers<={if peers.length ≤ s.maxPeers then "max" else "OVER"}"
         | some (.scrape tid st) => s!"{c}:scrape{st.length}:{tid}"
         | some (.error tid _) => s!"{c}:error:{tid}"
         | none => s!"{c}:undecodable")
      | _ => s!"{g.length}-replies"
    let expect (e : Option (ReplyKind × Nat)) : String := match e with
      | none => "none"
      | some (.connect, tid) => s!"{client}:connect:{tid}:len16"
      | some (.announce v6, tid) => s!"{client}:announce{if v6 then "6" else "4"}:{tid}:peers<=max"
      | some (.scrape n, tid) => s!"{client}:scrape{n}:{tid}"
      | some (.error, tid) => s!"{client}:error:{tid}"
    let impl := describe got
    let notes := ["dg", s!"id-{idclass}", match spec with | some (k, _) => s!"reply-{match k with | .connect => "connect" | .announce _ => "announce" | .scrape _ => "scrape" | .error => "error"}" | none => "reply-none"]
      ++ (if decide (b.length > 98) && (match spec with | some (.announce _, _) => true | _ => false) then ["announce+extension"] else [])
      ++ (if s.uring ∧ b.length > uringPayloadCap (!src.isV4) then ["uring>cap"] else [])
    -- no amplification: a reply obtained without a valid id is the 16-byte connect reply, never larger than the request
    let amplification := idclass ≠ "own" ∧ got.any (fun g => g.2.length > b.length ∨ g.2.length > 16)
    let cls := if s.uring ∧ b.length > uringPayloadCap (!src.isV4) then " class=uring-request-exceeds-receive-buffer-dropped" else ""
    if amplification then (s, .specfail "a reply larger than 16 bytes / than the request without a valid connection id", notes)
    else if expect spec ≠ impl then (s, .specfail s!"contract={expect spec}{cls} got={impl}", notes)
    else if expect model ≠ impl then (s, .mismatch s!"model={expect model} got={impl}", notes)
    else (s, .ok, notes)
  | _, _ => (s, .bad "arity", [])

def main : IO Unit := do
  let t ← runLoop (← IO.getStdin) step ({} : St) {} 1
  IO.println t.summary

end UdpNetDrv
