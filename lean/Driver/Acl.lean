/- Driver for the access-list file / reload traces (C11). -/
import Aquatic.Model.Acl
import Aquatic.Spec.AclFile
import Driver.Util

open Aquatic Drv

namespace AclDrv

structure St where
  mode : AclMode := .off
  list : List Nat := []

def probes : List Nat :=
  (List.range 5).map (fun i => hexNat (natHex 2 (0xa0 + i) ++ "000000000000bc" ++ "0000000000000000000000" ++ natHex 2 i))

/-- `BufRead::lines()`: split at `\n`, no line after a trailing newline; a line that is not UTF-8 is `none` -/
def linesOf (b : List UInt8) : List (Option (List Char)) :=
  let rec split (cur : List UInt8) : List UInt8 → List (List UInt8)
    | [] => [cur.reverse]
    | x :: t => if x = 10 then cur.reverse :: split [] t else split (x :: cur) t
  let segs := split [] b
  let segs := match segs.reverse with
    | [] :: r => r.reverse
    | _ => segs
  segs.map (fun s =>
    -- a `\r` before the `\n` is stripped by lines(); trim removes it anyway
    (String.fromUTF8? (ByteArray.mk s.toArray)).map String.toList)

def step (s : St) (ts : List String) : St × Verdict × List String :=
  let (a, out) := splitArrow ts
  match a, out with
  | ["cfg", m], _ =>
    ({ mode := (match m with | "allow" => .allow | "deny" => .deny | _ => .off), list := [] }, .skip, ["history"])
  | ["rld", f], [res, b1, b2] =>
    let file : Option (List (Option (List Char))) :=
      if f = "MISSING" ∨ f = "DIR" then none else some (linesOf (hexBytes f))
    let u := updateAccessList s.mode s.list file
    let s' := { s with list := u.1 }
    let bits := String.ofList (probes.map (fun p => if aclAllows s.mode u.1 p then '1' else '0'))
    let model := s!"{if u.2 then "ok" else "err"} {bits}"
    let notes := ["rld"] ++ (if u.2 then ["reload-ok"] else ["reload-failed"])
      ++ (if f = "MISSING" ∨ f = "DIR" then ["file-unreadable"] else [])
      ++ (if !u.2 ∧ !s.list.isEmpty then ["failed-reload-with-nonempty-previous-list"] else [])
      ++ (match file with | some ls => (if ls.any (fun l => match l with | some c => (trimWs c).isEmpty | none => false) then ["blank-lines"] else []) | none => [])
    -- both observation paths (arc-swap, per-worker cache) must show the same, and the model's
    -- the statement of C11 itself (Spec/AclFile), not the model of the parser
    let sp := AclSpec.afterReload s.mode s.list file
    let spBits := String.ofList (probes.map (fun p => if aclAllows s.mode sp.1 p then '1' else '0'))
    let wellFormed := match file with | some ls => AclSpec.fileOk ls | none => false
    if b1 ≠ b2 then (s', .specfail "the per-worker cache and the shared list disagree", notes)
    else if (s.mode != .off) && wellFormed && (res != "ok") then
      (s', .specfail s!"a well-formed list file (blank / padded lines, either case) is refused: the new list is not in force, decisions stay {b1} instead of {spBits}", notes)
    else if (s.mode != .off) && !wellFormed && (res == "ok") then
      (s', .specfail s!"a reload of an unreadable / malformed file is reported as done; decisions {b1}, previous list would give {spBits}", notes)
    else if spBits ≠ b1 then
      (s', .specfail s!"decisions after the reload are {b1}, the statement gives {spBits}", notes)
    else if model ≠ s!"{res} {b1}" then (s', .mismatch s!"model={model}", notes)
    else (s', .ok, notes)
  | _, _ => (s, .bad "arity", [])

def main : IO Unit := do
  let t ← runLoop (← IO.getStdin) step ({} : St) {} 1
  IO.println t.summary

end AclDrv
