/-
  Driver for the UDP operator-report traces (C20): udpstore lines with statistics messages, totals
  and the export file, and the crash-injection lines.
    MISMATCH  model (Aquatic.Stats.sstep / fsRun) and implementation disagree
    SPECFAIL  the reports are not faithful: a tally differs from the number of stored peers with
              that id, a total from what is stored, the export from the stored torrents, or the
              export path holds neither the previous nor the new complete file
-/
import Aquatic.Model.Stats
import Aquatic.Generated.Consts
import Driver.Util

open Aquatic Aquatic.Stats Drv

namespace StatsDrv

structure St where
  cfg : StoreCfg := ⟨2, false, 1000000⟩
  maxPeers : Nat := 30
  s : SState := {}
  rt : RT := {}
  /-- the statistics worker's tally, fed with the messages the implementation really sent -/
  tally : Stats.Tally := []
  /-- export file after the previous / the last cleaning pass -/
  oldExport : String := "!"
  newExport : String := "!"

def parseKey (s : String) : Key :=
  match s.splitOn ":" with
  | [ip, port] => (hexNat ip, nat! port)
  | _ => (0, 0)

def msgText : StatMsg → String
  | .added id => s!"+{natHex 40 id}"
  | .removed id => s!"-{natHex 40 id}"

def parseMsgs (s : String) : List StatMsg :=
  (sepList ";" s).map (fun t => if t.startsWith "+" then .added (hexNat (t.drop 1).toString) else .removed (hexNat (t.drop 1).toString))

def sortStrs (l : List String) : List String := (l.toArray.qsort (· < ·)).toList

def refCount (rt : RT) (id : Nat) : Nat := (rt.r4 ++ rt.r6).countP (fun e => e.peer.peerId = id)

/-- ids whose tally differs from the number of stored peers carrying them -/
def tallyDrift (t : Stats.Tally) (rt : RT) : List String :=
  let ids := (t.map (·.1) ++ (rt.r4 ++ rt.r6).map (·.peer.peerId)).eraseDups
  ids.filterMap (fun id =>
    let have_ := (IMap.get t id).getD 0
    let want := refCount rt id
    if have_ = want then none else some s!"{natHex 40 id}:tally={have_},stored={want}")

def exportOfRef (rt : RT) : String :=
  let line (v6 : Bool) (r : RState) : List String :=
    (Ref.dedup (r.map (·.hash))).map (fun h => s!"{if v6 then 6 else 4}/{natHex 40 h}/{(Ref.scrape r h).1}/{(Ref.scrape r h).2}")
  let l := sortStrs (line false rt.r4 ++ line true rt.r6)
  if l.isEmpty then "~" else String.intercalate ";" l

def exportOfModel (lines : List (Bool × Nat × Nat × Nat)) : String :=
  let l := sortStrs (lines.map (fun (v6, h, s, le) => s!"{if v6 then 6 else 4}/{natHex 40 h}/{s}/{le}"))
  if l.isEmpty then "~" else String.intercalate ";" l

def step (st : St) (ts : List String) : St × Verdict × List String :=
  let (a, out) := splitArrow ts
  match a with
  | ["cfg", _, maxPeers, _] => ({ cfg := ⟨Generated.udpSmallCap, false, 1000000⟩, maxPeers := nat! maxPeers }, .skip, ["history"])
  | ["new"] => ({ cfg := st.cfg, maxPeers := st.maxPeers }, .skip, [])
  | "scr" :: _ => (st, .skip, [])
  | ["ann", fam, hash, ip, port, event, left, numwant, dl, pidS] =>
    let v6 := fam ≠ "4"
    let key : Key := (hexNat ip, nat! port)
    let status := statusOf (event = "stopped") (int! left)
    let n := clampUdp st.maxPeers (if numwant = "-" then 0 else int! numwant)
    let implMsgs := parseMsgs (out.getD 3 "-")
    let prev := (if v6 then st.rt.r6 else st.rt.r4).find? (fun e => e.hash = hexNat hash ∧ e.key = key)
    let notes := ["ann"] ++ (match prev with
        | some e => (if e.peer.peerId ≠ hexNat pidS then (if status = .stopped then ["stop-with-other-id"] else ["id-change"]) else ["re-announce"])
        | none => [])
    match sstep st.cfg st.s (.ann v6 (hexNat hash) key status (hexNat pidS) (nat! dl) n 0 0) with
    | .error p => (st, .mismatch s!"model=panic:{repr p}", notes)
    | .ok (s', .ann msgs) =>
      let (rt', _) := refStep st.cfg st.rt (.ann v6 (hexNat hash) key status (hexNat pidS) (nat! dl) n 0 0)
      let tally' := tallyRun st.tally implMsgs
      let st' := { st with s := s', rt := rt', tally := tally' }
      let drift := tallyDrift tally' rt'
      if !drift.isEmpty then (st', .specfail s!"per-client tally differs from the stored peers: {drift} class=tally-drift-on-peer-id-change", notes)
      else if msgs ≠ implMsgs then (st', .mismatch s!"model msgs={msgs.map msgText}", notes)
      else (st', .ok, notes)
    | .ok _ => (st, .bad "conv", notes)
  | ["cln", now, _mode, _list] =>
    let allowed : Nat → Bool := fun _ => true
    match sstep st.cfg st.s (.cln (nat! now) allowed) with
    | .error p => (st, .mismatch s!"model=panic:{repr p}", ["cln"])
    | .ok (s', .cln rep) =>
      let (rt', _) := refStep st.cfg st.rt (.cln (nat! now) allowed)
      let implMsgs := parseMsgs (out.getD 4 "-")
      let tally' := tallyRun st.tally implMsgs
      let implExport := match out.find? (·.startsWith "X:") with | some t => (t.drop 2).toString | none => "!"
      let st' := { st with s := s', rt := rt', tally := tally', oldExport := st.newExport, newExport := implExport }
      let implTotals := out.take 4
      let refTotals := [toString (Ref.numTorrents rt'.r4), toString rt'.r4.length, toString (Ref.numTorrents rt'.r6), toString rt'.r6.length]
      let modelTotals := [toString rep.torrents4, toString rep.peers4, toString rep.torrents6, toString rep.peers6]
      let drift := tallyDrift tally' rt'
      let notes := ["cln"] ++ (if !implMsgs.isEmpty then ["expired-peers"] else []) ++ (if implExport ≠ "~" then ["export-nonempty"] else [])
        ++ (if implExport ≠ st.newExport then ["export-changed"] else [])
      if refTotals ≠ implTotals then (st', .specfail s!"totals: stored={refTotals}", notes)
      else if !drift.isEmpty then (st', .specfail s!"per-client tally differs from the stored peers: {drift} class=tally-drift-on-peer-id-change", notes)
      else if implExport ≠ exportOfRef rt' then (st', .specfail s!"export: stored={exportOfRef rt'}", notes)
      else if modelTotals ≠ implTotals then (st', .mismatch s!"model totals={modelTotals}", notes)
      else if sortStrs (rep.msgs.map msgText) ≠ sortStrs (implMsgs.map msgText) then (st', .mismatch s!"model msgs={rep.msgs.map msgText}", notes)
      else if exportOfModel rep.lines ≠ implExport then (st', .mismatch s!"model export={exportOfModel rep.lines}", notes)
      else (st', .ok, notes)
    | .ok _ => (st, .bad "conv", ["cln"])
  | ["crash", k, n, kind] =>
    let content := out.getD 0 "!"
    let kN := nat! k
    let nN := nat! n
    -- model: the export steps the file system has seen at probe k: create, (buffered lines), then rename at the last probe
    let path : List Nat := if kind = "tmpext" then "export.tmp".toList.map Char.toNat else "export.txt".toList.map Char.toNat
    let newLines := if st.newExport = "~" then [] else st.newExport.splitOn ";"
    let oldFs : Fs := if st.oldExport = "!" then [] else [(path, if st.oldExport = "~" then [] else st.oldExport.splitOn ";")]
    let steps := exportSteps path newLines
    -- probe 1: after create; probes 2..n-1: lines still buffered or flushed; probe n: after rename
    let done := if kN = nN then steps.length else if kN = nN - 1 then steps.length - 1 else 1
    let fs := fsRun oldFs (steps.take done)
    let modelContent := match IMap.get fs path with
      | none => "!"
      | some ls => if ls.isEmpty then "~" else String.intercalate ";" (sortStrs ls)
    let notes := ["case", "crash", s!"crash-{kind}", if kN = nN then "crash-after-rename" else if kN = 1 then "crash-after-create" else "crash-mid-export"]
      ++ (if st.oldExport ≠ "!" ∧ st.oldExport ≠ st.newExport then ["old-export-present"] else [])
    if content ≠ st.oldExport ∧ content ≠ st.newExport then
      (st, .specfail s!"the export path holds neither the previous file ({st.oldExport}) nor the new one ({st.newExport}) class=export-path-with-tmp-extension-written-in-place", notes)
    else if content ≠ modelContent then (st, .mismatch s!"model={modelContent}", notes)
    else (st, .ok, notes)
  | ["statsw", msgsS, namesS] =>
    -- the real statistics worker fed with these messages: the clients its page lists are those of the ids
    -- the model's tally still holds, each id counted once
    let msgs := parseMsgs msgsS
    let tally := tallyRun [] msgs
    let names : List (Nat × String) := (sepList "," namesS).filterMap (fun x => match x.splitOn "=" with
      | [h, n] => some (hexNat h, n) | _ => none)
    let clientsOf := tally.filterMap (fun (id, _) => (names.find? (fun x => x.1 = id)).map (·.2))
    let distinct := clientsOf.eraseDups
    let want := sortStrs (distinct.map (fun c => s!"{c}={clientsOf.count c}"))
    let wantS := if want.isEmpty then "-" else String.intercalate ";" want
    let impl := out.getD 0 "?"
    let notes := ["case", "statsw"] ++ (if want.length > 1 then ["several-clients"] else []) ++ (if msgs.any (fun m => match m with | .removed _ => true | _ => false) then ["with-removals"] else [])
    if impl = wantS then (st, .ok, notes) else (st, .mismatch s!"model clients={wantS}", notes)
  | _ => (st, .bad "unknown op", [])

def main : IO Unit := do
  let t ← runLoop (← IO.getStdin) step ({} : St) {} 1
  IO.println t.summary

end StatsDrv
