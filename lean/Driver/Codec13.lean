/-
  Driver for the UDP wire codec traces (C13; the malformed stream also serves C12).
    rq  real writer bytes  vs  model writer (generated layouts)  vs  BEP 15 encoder
    pq  real parser result vs  model parser                      vs  BEP 15 decoder
    rs / ps  the same for replies
-/
import Aquatic.Model.UdpCodec
import Driver.Util

open Aquatic Aquatic.Bep15 Aquatic.UdpCodec Drv

namespace Codec13Drv

def evOfName : String → Ev
  | "started" => .started | "stopped" => .stopped | "completed" => .completed | _ => .none
def evName : Ev → String
  | .started => "started" | .stopped => "stopped" | .completed => "completed" | .none => "none"

def reqOfTokens : List String → Option Request
  | ["connect", tid] => some (.connect (nat! tid))
  | ["announce", cid, tid, ih, pid, dl, left, ul, ev, ip, key, nw, port] =>
    some (.announce ⟨nat! cid, nat! tid, hexNat ih, hexNat pid, nat! dl, nat! left, nat! ul, evOfName ev,
      nat! ip, nat! key, nat! nw, nat! port⟩)
  | ["scrape", cid, tid, hs] => some (.scrape (nat! cid) (nat! tid) (hexNatList "," hs))
  | _ => none

def reqText : Request → String
  | .connect tid => s!"connect {tid}"
  | .announce a => s!"announce {a.connectionId} {a.transactionId} {natHex 40 a.infoHash} {natHex 40 a.peerId} {a.downloaded} {a.left} {a.uploaded} {evName a.event} {a.ip} {a.key} {a.numWant} {a.port}"
  | .scrape cid tid hs =>
    let h := if hs.isEmpty then "-" else String.intercalate "," (hs.map (natHex 40))
    s!"scrape {cid} {tid} {h}"

def parsePeer (s : String) : RPeer :=
  match s.splitOn ":" with
  | [a, b] => ⟨hexNat a, nat! b⟩
  | _ => ⟨0, 0⟩

def parseStats (s : String) : Stats :=
  match s.splitOn ":" with
  | [a, b, c] => ⟨nat! a, nat! b, nat! c⟩
  | _ => ⟨0, 0, 0⟩

def respOfTokens : List String → Option Response
  | ["connect", tid, cid] => some (.connect (nat! tid) (nat! cid))
  | ["announce4", tid, i, l, s, ps] => some (.announce false (nat! tid) (nat! i) (nat! l) (nat! s) ((sepList ";" ps).map parsePeer))
  | ["announce6", tid, i, l, s, ps] => some (.announce true (nat! tid) (nat! i) (nat! l) (nat! s) ((sepList ";" ps).map parsePeer))
  | ["scrape", tid, st] => some (.scrape (nat! tid) ((sepList "," st).map parseStats))
  | ["error", tid, msg] => some (.error (nat! tid) (hexBytes msg))
  | _ => none

def respText : Response → String
  | .connect tid cid => s!"connect {tid} {cid}"
  | .announce v6 tid i l s ps =>
    let p := if ps.isEmpty then "-" else String.intercalate ";" (ps.map (fun x => s!"{natHex (if v6 then 32 else 8) x.ip}:{x.port}"))
    s!"announce{if v6 then "6" else "4"} {tid} {i} {l} {s} {p}"
  | .scrape tid st =>
    let p := if st.isEmpty then "-" else String.intercalate "," (st.map (fun x => s!"{x.seeders}:{x.completed}:{x.leechers}"))
    s!"scrape {tid} {p}"
  | .error tid msg => s!"error {tid} {bytesHex msg}"

def step (_ : Unit) (ts : List String) : Unit × Verdict × List String :=
  let (a, out) := splitArrow ts
  match a with
  | "rq" :: rest =>
    match reqOfTokens rest, out with
    | some r, [h] =>
      let notes := ["case", "rq", match r with | .connect _ => "rq-connect" | .announce _ => "rq-announce" | .scrape .. => "rq-scrape"]
      if bytesHex (encRequest r) ≠ h then ((), .specfail s!"bep15={bytesHex (encRequest r)}", notes)
      else if bytesHex (encodeRequest r) ≠ h then ((), .mismatch s!"model={bytesHex (encodeRequest r)}", notes)
      else ((), .ok, notes)
    | _, _ => ((), .bad "rq", [])
  | ["pq", mx, h] =>
    let b := hexBytes h
    let impl := String.intercalate " " out
    let model := match parseRequest b (nat! mx) with
      | .ok r => s!"ok {reqText r}"
      | .error (.sendable c t) => s!"err sendable {c} {t}"
      | .error .unsendable => "err unsendable"
    let spec := match decRequest b (nat! mx) with
      | some r => s!"ok {reqText r}"
      | none => "err"
    let implClass := if impl.startsWith "err" then "err" else impl
    let notes := ["case", "pq", if impl.startsWith "ok" then "pq-accepted" else if impl.startsWith "err sendable" then "pq-sendable-error" else "pq-unsendable-error"]
      ++ (if b.length > 98 ∧ impl.startsWith "ok announce" then ["announce+extension"] else [])
      ++ (if impl.startsWith "ok scrape" ∧ (b.length - 16) / 20 > nat! mx then ["scrape-cut"] else [])
    if spec ≠ implClass then ((), .specfail s!"bep15={spec}", notes)
    else if model ≠ impl then ((), .mismatch s!"model={model}", notes)
    else ((), .ok, notes)
  | "rs" :: rest =>
    match respOfTokens rest, out with
    | some r, [h] =>
      let notes := ["case", "rs", match r with | .connect .. => "rs-connect" | .announce v6 .. => (if v6 then "rs-announce6" else "rs-announce4") | .scrape .. => "rs-scrape" | .error .. => "rs-error"]
      if bytesHex (encResponse r) ≠ h then ((), .specfail s!"bep15={bytesHex (encResponse r)}", notes)
      else if bytesHex (encodeResponse r) ≠ h then ((), .mismatch s!"model={bytesHex (encodeResponse r)}", notes)
      else ((), .ok, notes)
    | _, _ => ((), .bad "rs", [])
  | ["ps", v4, h] =>
    let b := hexBytes h
    let impl := String.intercalate " " out
    let model := match parseResponse b (v4 = "1") with
      | some r => s!"ok {respText r}"
      | none => "err"
    let spec := match decResponse b (v4 ≠ "1") with
      | some r => s!"ok {respText r}"
      | none => "err"
    let notes := ["case", "ps", if impl.startsWith "ok" then "ps-accepted" else "ps-rejected"]
    -- error messages are decoded lossily (String::from_utf8_lossy, std) by the client library: for a
    -- message that is not valid UTF-8 only the transaction id is compared
    let lossy := impl.startsWith "ok error" ∧ ¬ ByteArray.validateUTF8 (ByteArray.mk (b.drop 8).toArray)
    let cut (s : String) : String := if lossy then String.intercalate " " ((s.splitOn " ").take 3) else s
    let (impl, model, spec) := (cut impl, cut model, cut spec)
    let notes := notes ++ (if lossy then ["ps-error-invalid-utf8"] else [])
    if spec ≠ impl then ((), .specfail s!"bep15={spec}", notes)
    else if model ≠ impl then ((), .mismatch s!"model={model}", notes)
    else ((), .ok, notes)
  | _ => ((), .bad "unknown op", [])

def main : IO Unit := do
  let t ← runLoop (← IO.getStdin) step () {} 1
  IO.println t.summary

end Codec13Drv
