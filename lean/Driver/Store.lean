/-
  Driver for the UDP / HTTP swarm store traces (C01, C02, C07, C10, C11 clean, C20 totals).
  Each line carries an operation and what the implementation answered; the
  driver replays it on the model (Aquatic.Model.Store) *and* on the reference
  tracker (Aquatic.Spec.Ref) and reports, per line,
    MISMATCH  model and implementation disagree
    SPECFAIL  the implementation's answer is not one the reference allows
-/
import Aquatic.Model.Tracker
import Aquatic.Generated.Consts
import Aquatic.Model.HttpConn
import Aquatic.Model.HttpShards
import Driver.Util

open Aquatic Drv

namespace StoreDrv

structure Cfg where
  http      : Bool := false
  c         : Nat := 2
  maxPeers  : Nat := 30
  maxScrape : Nat := 70

structure St where
  cfg : Cfg := {}
  ts : TState := {}
  rt : RT := {}
  /-- HTTP: the same history on the model with `nw` swarm workers (`Model/HttpShards`; 1 for the in-process store) -/
  nw : Nat := 1
  h4 : Shards := [[]]
  h6 : Shards := [[]]

def St.withWorkers (s : St) (n : Nat) : St :=
  let n := if n = 0 then 1 else n
  { s with nw := n, h4 := List.replicate n [], h6 := List.replicate n [] }

def St.m4 (s : St) : TMap := s.ts.m4
def St.m6 (s : St) : TMap := s.ts.m6
def St.r4 (s : St) : RState := s.rt.r4
def St.r6 (s : St) : RState := s.rt.r6
def St.scfg (s : St) : StoreCfg := ⟨s.cfg.c, s.cfg.http, s.cfg.maxScrape⟩

def parseKey (s : String) : Key :=
  match s.splitOn ":" with
  | [a, b] => (hexNat a, nat! b)
  | _ => (0, 0)

def showKeys (l : List Key) : String :=
  if l.isEmpty then "-" else String.intercalate ";" (l.map (fun k => s!"{k.1}:{k.2}"))

def allowedFn (mode : String) (list : List Nat) : Nat → Bool :=
  fun h => match mode with
    | "allow" => list.contains h
    | "deny" => !list.contains h
    | _ => true

/-- all in-range draws for a heap map of `len` entries and limit `n` -/
def offsetPairs (len n : Nat) : List (Nat × Nat) :=
  if len ≤ n ∨ n / 2 = 0 then [(0, 0)] else   -- with n / 2 = 0 both slices are empty whatever the draws
  match halvesBounds len n with
  | .ok (t1, t2) =>
    (List.range t1).flatMap (fun o1 => ((List.range t2).filter (len / 2 ≤ ·)).map (fun o2 => (o1, o2)))
  | .error _ => [(0, 0)]

/-- `H:<head hex>:<body length>`: the reply head the implementation sent against the model's
`writeResponse` for a body of that length (C16) -/
def headBad (out : List String) : Option String :=
  match out.find? (fun t => t.startsWith "H:") with
  | none => none
  | some t =>
    match t.splitOn ":" with
    | [_, hh, bl] =>
      let body : List Nat := List.replicate (nat! bl) 0
      let model := ((Aquatic.Http.writeResponse (Aquatic.Http.freshBuffer 4096) body).2).take Aquatic.Http.hdrLen
      let impl := (hexBytes hh).map UInt8.toNat
      if model = impl then none else some s!"reply head differs from the model's: model={String.join (model.map (fun x => hexOfByte (UInt8.ofNat x)))}"
    | _ => some "bad H token"

def stepAnn (s : St) (fam : String) (a : List String) (out : List String) : St × Verdict × List String :=
  match a, out with
  | [hash, ip, port, event, left, numwant, dl, pidS], is :: il :: ipeers :: _ =>
    let h := hexNat hash
    let pid := pidS
    let key : Key := (hexNat ip, nat! port)
    let st := statusOf (event = "stopped") (int! left)
    let n := if s.cfg.http then clampHttp s.cfg.maxPeers (if numwant = "-" ∨ numwant.startsWith "-" then none else some (nat! numwant))
             else clampUdp s.cfg.maxPeers (if numwant = "-" then 0 else int! numwant)
    let m := if fam = "4" then s.m4 else s.m6
    let pm := (m.get h).getD (.small [])
    let implPeers := (sepList ";" ipeers).map parseKey
    -- model
    let (len1, wasLarge) := match pm with
      | .large l _ => ((swapRemove l key).1.length, true)
      | .small _ => (0, false)
    let pairs := if wasLarge then offsetPairs len1 n else [(0, 0)]
    let v6 := fam ≠ "4"
    let results := pairs.map (fun (o1, o2) =>
      match step s.scfg s.ts (.ann v6 h key st (hexNat pid) (nat! dl) n o1 o2) with
      | .ok (ts', .ann o) => (Except.ok (ts', o) : Except Panic (TState × AnnOut))
      | .ok _ => .error .conv
      | .error e => .error e)
    -- reference
    let (rt', view) := match refStep s.scfg s.rt (.ann v6 h key st (hexNat pid) (nat! dl) n 0 0) with
      | (rt', .ann v) => (rt', v)
      | (rt', _) => (rt', ⟨0, 0, []⟩)
    let specOk := view.seeders = nat! is ∧ view.leechers = nat! il ∧ peersOk implPeers view.candidates n
    match results.head? with
    | none => (s, .bad "no offsets", [])
    | some (.error p) => (s, .mismatch s!"model=panic:{repr p}", [])
    | some (.ok (ts', o)) =>
      let s' := { s with ts := ts', rt := rt' }
      let m' := if fam = "4" then ts'.m4 else ts'.m6
      let countsOk := o.seeders = nat! is ∧ o.leechers = nat! il
      let peersMatch := results.any (fun x => match x with
        | .ok (_, o') => o'.peers = implPeers
        | .error _ => false)
      let isLargeAfter := ((m'.get h).map PeerMap.isLarge).getD false
      let notes :=
        ["ann"] ++ (if !wasLarge && isLargeAfter then ["small->large"] else [])
          ++ (if wasLarge && !isLargeAfter then ["large->small(stop)"] else [])
          ++ (if wasLarge && len1 > n then ["halves-branch"] else [])
          ++ (if wasLarge && len1 ≤ n then ["large-all-branch"] else [])
          ++ (if o.removed.isSome then ["re-announce"] else [])
          ++ (match st with | .stopped => ["stopped"] | .seeding => ["seeding"] | .leeching => ["leeching"])
          ++ (if pairs.length > 1 then ["offset-choices>1"] else [])
      let frameBad := out.find? (fun t => t.startsWith "F:" ∧ t ≠ "F:ok")
      if out.contains "WRONGFAMILY" then
        (s', .specfail "peers of the other address family in the reply", notes)
      else if frameBad.isSome then
        (s', .specfail s!"HTTP framing: {frameBad.getD ""}", notes)
      else if (headBad out).isSome then
        (s', .mismatch s!"HTTP framing: {(headBad out).getD ""}", notes)
      else if !specOk then
        (s', .specfail s!"ref=({view.seeders},{view.leechers},{showKeys view.candidates}) n={n}", notes)
      else if !(countsOk && peersMatch) then
        (s', .mismatch s!"model=({o.seeders},{o.leechers},{showKeys o.peers}) offsets={pairs.length}", notes)
      else (s', .ok, notes)
  | _, _ => (s, .bad "ann arity", [])

def showCounts (l : List (Nat × Nat)) : String :=
  if l.isEmpty then "-" else String.intercalate "," (l.map (fun (a, b) => s!"{a}:{b}"))

def stepScr (s : St) (fam : String) (a : List String) (out : List String) : St × Verdict × List String :=
  match a, out with
  | [hs], impl :: frameTok =>
    let hashes := hexNatList "," hs
    let v6 := fam ≠ "4"
    let render (l : List (Nat × Nat × Nat)) : String :=
      if s.cfg.http then
        -- the HTTP reply is a BTreeMap: sorted by hash, repeated hashes once
        let sorted := httpScrapeFiles l
        if sorted.isEmpty then "-" else
          String.intercalate "," (sorted.map (fun (k, (a, b)) => s!"{natHex 40 k}={a}:{b}"))
      else showCounts (l.map (·.2))
    let notes := ["scr"] ++ (if hashes.length > s.cfg.maxScrape then ["scrape-truncated"] else [])
    match step s.scfg s.ts (.scr v6 hashes), refStep s.scfg s.rt (.scr v6 hashes) with
    | .ok (_, .scr mc), (_, .scr rc) =>
      let notes := notes ++ (if mc.any (fun x => x.2 ≠ (0, 0)) then ["scrape-nonzero"] else [])
      if frameTok.any (fun t => t.startsWith "F:" ∧ t ≠ "F:ok") then (s, .specfail s!"HTTP framing: {frameTok}", notes)
      else if (headBad frameTok).isSome then (s, .mismatch s!"HTTP framing: {(headBad frameTok).getD ""}", notes)
      else if render rc ≠ impl then (s, .specfail s!"ref={render rc}", notes)
      else if render mc ≠ impl then (s, .mismatch s!"model={render mc}", notes)
      else (s, .ok, notes)
    | _, _ => (s, .mismatch "model=panic", [])
  | _, _ => (s, .bad "scr arity", [])

def stepCln (s : St) (a : List String) (out : List String) : St × Verdict × List String :=
  match a with
  | [now, mode, list] =>
    let allowed := allowedFn mode (hexNatList "," list)
    let nowN := nat! now
    let crossed (m m' : TMap) : Bool :=
      m.any (fun (h, pm) => pm.isLarge && ((m'.get h).map (fun p => !p.isLarge)).getD false)
    match step s.scfg s.ts (.cln nowN allowed), refStep s.scfg s.rt (.cln nowN allowed) with
    | .ok (ts', .cln a b c d), (rt', .cln a' b' c' d') =>
      let s' := { s with ts := ts', rt := rt' }
      let notes := ["cln"] ++ (if crossed s.m4 ts'.m4 || crossed s.m6 ts'.m6 then ["large->small(clean)"] else [])
        ++ (if ts'.m4.length < s.m4.length ∨ ts'.m6.length < s.m6.length then ["cln-dropped-torrent"] else [])
        ++ (if mode ≠ "off" then ["cln-acl"] else [])
      let (modelOut, refOut) :=
        if s.cfg.http then ([toString a, toString c], [toString a', toString c'])
        else ([toString a, toString b, toString c, toString d], [toString a', toString b', toString c', toString d'])
      let implOut := out.take modelOut.length
      if implOut.length ≠ modelOut.length then (s', .bad "cln out arity", notes)
      else if refOut ≠ implOut then (s', .specfail s!"ref={refOut}", notes)
      else if modelOut ≠ implOut then (s', .mismatch s!"model={modelOut}", notes)
      else (s', .ok, notes)
    | _, _ => (s, .mismatch "model=panic", [])
  | _ => (s, .bad "cln arity", [])

/-! ### HTTP: the same operations on the `n`-worker model (C16) -/

def combine (r : St × Verdict × List String) (sh : St → St × Option String) : St × Verdict × List String :=
  let (s1, v, notes) := r
  let (s2, bad) := sh s1
  match v, bad with
  | .ok, some t => (s2, .mismatch s!"model with {s2.nw} swarm workers: {t}", notes)
  | _, _ => (s2, v, notes)

def shadowAnn (s0 : St) (fam : String) (a : List String) (out : List String) (s : St) : St × Option String :=
  if !s0.cfg.http then (s, none) else
  match a, out with
  | [hash, ip, port, event, left, numwant, dl, pidS], is :: il :: ipeers :: _ =>
    let h := hexNat hash
    let key : Key := (hexNat ip, nat! port)
    let st := statusOf (event = "stopped") (int! left)
    let n := clampHttp s0.cfg.maxPeers (if numwant = "-" ∨ numwant.startsWith "-" then none else some (nat! numwant))
    let ss := if fam = "4" then s0.h4 else s0.h6
    let pm := (((ss[route s0.nw h]?).getD []).get h).getD (.small [])
    let implPeers := (sepList ";" ipeers).map parseKey
    let (len1, wasLarge) := match pm with
      | .large l _ => ((swapRemove l key).1.length, true)
      | .small _ => (0, false)
    let pairs := if wasLarge then offsetPairs len1 n else [(0, 0)]
    let results : List (Except Panic (Shards × AnnOut)) :=
      pairs.map (fun (o1, o2) => shardAnnounce s0.cfg.c s0.nw ss h key st (hexNat pidS) (nat! dl) n o1 o2)
    let good := results.find? (fun x => match x with
      | .ok (_, o) => o.seeders = nat! is ∧ o.leechers = nat! il ∧ o.peers = implPeers
      | .error _ => false)
    let put (ss' : Shards) : St := if fam = "4" then { s with h4 := ss' } else { s with h6 := ss' }
    match good, results.head? with
    | some (.ok (ss', _)), _ => (put ss', none)
    | _, some (.ok (ss', o)) => (put ss', some s!"({o.seeders},{o.leechers},{showKeys o.peers}) for the first of {pairs.length} draws")
    | _, some (.error p) => (s, some s!"panic:{repr p}")
    | _, none => (s, none)
  | _, _ => (s, none)

def shadowScr (s0 : St) (fam : String) (a : List String) (out : List String) (s : St) : St × Option String :=
  if !s0.cfg.http then (s, none) else
  match a, out with
  | [hs], impl :: _ =>
    let ss := if fam = "4" then s0.h4 else s0.h6
    match shardScrape s0.nw s0.cfg.maxScrape ss (hexNatList "," hs) with
    | .ok files =>
      let text := if files.isEmpty then "-" else String.intercalate "," (files.map (fun (k, (a, b)) => s!"{natHex 40 k}={a}:{b}"))
      if text = impl then (s, none) else (s, some text)
    | .error p => (s, some s!"panic:{repr p}")
  | _, _ => (s, none)

def shadowCln (s0 : St) (a : List String) (s : St) : St × Option String :=
  if !s0.cfg.http then (s, none) else
  match a with
  | [now, mode, list] =>
    let allowed := allowedFn mode (hexNatList "," list)
    let go (ss : Shards) : Except Panic Shards :=
      (List.range s0.nw).foldl (fun acc i => match acc with
        | .ok x => shardClean s0.cfg.c x i (nat! now) allowed
        | .error e => .error e) (.ok ss)
    match go s0.h4, go s0.h6 with
    | .ok a4, .ok a6 => ({ s with h4 := a4, h6 := a6 }, none)
    | _, _ => (s, some "panic")
  | _ => (s, none)

def step (s : St) (ts : List String) : St × Verdict × List String :=
  let (a, out) := splitArrow ts
  match a with
  | ["cfg", kind, maxPeers, maxScrape] =>
    let http := kind = "http"
    ({ cfg := { http := http, c := if http then Generated.httpSmallCap else Generated.udpSmallCap,
                maxPeers := nat! maxPeers, maxScrape := nat! maxScrape } }, .skip, ["history"])
  | ["new"] => (({ cfg := s.cfg } : St).withWorkers s.nw, .skip, [])
  | "net" :: rest =>
    if rest.any (fun t => t.startsWith "START-FAILED" ∨ t.startsWith "TRACKER-EXITED") then
      (s, .specfail s!"tracker process: {rest}", ["net-problem"])
    else
      let nw := match rest.find? (·.startsWith "swarm_workers=") with | some t => nat! ((t.splitOn "=").getD 1 "1") | none => 1
      (s.withWorkers nw, .skip, rest.filter (fun t => t.startsWith "socket_workers" ∨ t.startsWith "swarm_workers" ∨ t.startsWith "keep_alive" ∨ t = "boundary=true" ∨ t = "proxy=true" ∨ t = "bigswarm=true"))
  | "ann" :: fam :: rest =>
    if out.head? = some "NOREPLY" then
      -- no complete reply reached the client; the announce may or may not have been applied
      let r := stepAnn s fam rest ["0", "0", "-"]
      (r.1, .specfail s!"no complete reply: {out}", ["noreply"])
    else if out.head? = some "FAILURE" then (s, .specfail s!"failure reply: {out}", ["failure-reply"])
    else combine (stepAnn s fam rest out) (shadowAnn s fam rest out)
  | "scr" :: fam :: rest =>
    if out.head? = some "NOREPLY" then
      let n := match rest with | [hs] => (hexNatList "," hs).length | _ => 0
      (s, .specfail s!"no complete reply to a scrape of {n} hashes: {out} class=http-scrape-reply-exceeds-response-buffer-n{if n ≥ 58 then "ge58" else "lt58"}", ["noreply"])
    else combine (stepScr s fam rest out) (shadowScr s fam rest out)
  | "cln" :: rest => combine (stepCln s rest out) (shadowCln s rest)
  | _ => (s, .bad "unknown op", [])

def main : IO Unit := do
  let t ← runLoop (← IO.getStdin) step ({} : St) {} 1
  IO.println t.summary

end StoreDrv
