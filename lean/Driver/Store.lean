/-
  Driver for the UDP / HTTP swarm store traces (C01, C02, C07, C10, C11 clean, C20 totals).
  Each line carries an operation and what the implementation answered; the
  driver replays it on the model (Aquatic.Model.Store) *and* on the reference
  tracker (Aquatic.Spec.Ref) and reports, per line,
    MISMATCH  model and implementation disagree
    SPECFAIL  the implementation's answer is not one the reference allows
-/
import Aquatic.Model.Store
import Aquatic.Spec.Ref
import Aquatic.Generated.Consts
import Driver.Util

open Aquatic Drv

namespace StoreDrv

structure Cfg where
  http      : Bool := false
  c         : Nat := 2
  maxPeers  : Nat := 30
  maxScrape : Nat := 70

structure St where
  cfg : Cfg := {}
  m4 : TMap := []
  m6 : TMap := []
  r4 : RState := []
  r6 : RState := []

def parseKey (s : String) : Key :=
  match s.splitOn ":" with
  | [a, b] => (hexNat a, nat! b)
  | _ => (0, 0)

def showKeys (l : List Key) : String :=
  if l.isEmpty then "-" else String.intercalate ";" (l.map (fun k => s!"{k.1}:{k.2}"))

def allowedFn (mode : String) (list : List Nat) : Nat → Bool :=
  fun h => match mode with
    | "allow" => list.contains h
    | "deny" => !list.contains h
    | _ => true

/-- all in-range draws for a heap map of `len` entries and limit `n` -/
def offsetPairs (len n : Nat) : List (Nat × Nat) :=
  if len ≤ n then [(0, 0)] else
  match halvesBounds len n with
  | .ok (t1, t2) =>
    (List.range t1).flatMap (fun o1 => ((List.range t2).filter (len / 2 ≤ ·)).map (fun o2 => (o1, o2)))
  | .error _ => [(0, 0)]

def stepAnn (s : St) (fam : String) (a : List String) (out : List String) : St × Verdict × List String :=
  match a, out with
  | [hash, ip, port, event, left, numwant, dl, pidS], is :: il :: ipeers :: _ =>
    let h := hexNat hash
    let pid := pidS
    let key : Key := (hexNat ip, nat! port)
    let st := statusOf (event = "stopped") (int! left)
    let n := if s.cfg.http then clampHttp s.cfg.maxPeers (if numwant = "-" then none else some (nat! numwant))
             else clampUdp s.cfg.maxPeers (if numwant = "-" then 0 else int! numwant)
    let m := if fam = "4" then s.m4 else s.m6
    let r := if fam = "4" then s.r4 else s.r6
    let pm := (m.get h).getD (.small [])
    let implPeers := (sepList ";" ipeers).map parseKey
    -- model
    let (len1, wasLarge) := match pm with
      | .large l _ => ((swapRemove l key).1.length, true)
      | .small _ => (0, false)
    let pairs := if wasLarge then offsetPairs len1 n else [(0, 0)]
    let results := pairs.map (fun (o1, o2) => TMap.announce s.cfg.c m h key st (hexNat pid) (nat! dl) n o1 o2)
    -- reference
    let (r', view) := Ref.announce r h key st (hexNat pid) (nat! dl)
    let specOk := view.seeders = nat! is ∧ view.leechers = nat! il ∧ peersOk implPeers view.candidates n
    match results.head? with
    | none => (s, .bad "no offsets", [])
    | some (.error p) => (s, .mismatch s!"model=panic:{repr p}", [])
    | some (.ok (m', o)) =>
      let s' := if fam = "4" then { s with m4 := m', r4 := r' } else { s with m6 := m', r6 := r' }
      let countsOk := o.seeders = nat! is ∧ o.leechers = nat! il
      let peersMatch := results.any (fun x => match x with
        | .ok (_, o') => o'.peers = implPeers
        | .error _ => false)
      let isLargeAfter := ((m'.get h).map PeerMap.isLarge).getD false
      let notes :=
        ["ann"] ++ (if !wasLarge && isLargeAfter then ["small->large"] else [])
          ++ (if wasLarge && !isLargeAfter then ["large->small(stop)"] else [])
          ++ (if wasLarge && len1 > n then ["halves-branch"] else [])
          ++ (if wasLarge && len1 ≤ n then ["large-all-branch"] else [])
          ++ (if o.removed.isSome then ["re-announce"] else [])
          ++ (match st with | .stopped => ["stopped"] | .seeding => ["seeding"] | .leeching => ["leeching"])
          ++ (if pairs.length > 1 then ["offset-choices>1"] else [])
      if !specOk then
        (s', .specfail s!"ref=({view.seeders},{view.leechers},{showKeys view.candidates}) n={n}", notes)
      else if !(countsOk && peersMatch) then
        (s', .mismatch s!"model=({o.seeders},{o.leechers},{showKeys o.peers}) offsets={pairs.length}", notes)
      else (s', .ok, notes)
  | _, _ => (s, .bad "ann arity", [])

def showCounts (l : List (Nat × Nat)) : String :=
  if l.isEmpty then "-" else String.intercalate "," (l.map (fun (a, b) => s!"{a}:{b}"))

def insertSorted (k : Nat) (v : Nat × Nat) : List (Nat × (Nat × Nat)) → List (Nat × (Nat × Nat))
  | [] => [(k, v)]
  | (k', v') :: t => if k = k' then (k, v) :: t else if k < k' then (k, v) :: (k', v') :: t
                     else (k', v') :: insertSorted k v t

def stepScr (s : St) (fam : String) (a : List String) (out : List String) : St × Verdict × List String :=
  match a, out with
  | [hs], [impl] =>
    let hashes := hexNatList "," hs
    let m := if fam = "4" then s.m4 else s.m6
    let r := if fam = "4" then s.r4 else s.r6
    let taken := hashes.take s.cfg.maxScrape
    let modelCounts := taken.map (fun h => (h, m.scrapeOne h))
    if modelCounts.any (fun x => match x.2 with | .error _ => true | .ok _ => false) then
      (s, .mismatch "model=panic", [])
    else
      let mc := modelCounts.map (fun x => (x.1, match x.2 with | .ok v => v | .error _ => (0, 0)))
      let rc := taken.map (fun h => (h, Ref.scrape r h))
      let render (l : List (Nat × (Nat × Nat))) : String :=
        if s.cfg.http then
          let sorted := l.foldl (fun acc (k, v) => insertSorted k v acc) []
          if sorted.isEmpty then "-" else
            String.intercalate "," (sorted.map (fun (k, (a, b)) => s!"{k}={a}:{b}"))
        else showCounts (l.map (·.2))
      let notes := ["scr"] ++ (if hashes.length > s.cfg.maxScrape then ["scrape-truncated"] else [])
        ++ (if mc.any (fun x => x.2 ≠ (0, 0)) then ["scrape-nonzero"] else [])
      if render rc ≠ impl then (s, .specfail s!"ref={render rc}", notes)
      else if render mc ≠ impl then (s, .mismatch s!"model={render mc}", notes)
      else (s, .ok, notes)
  | _, _ => (s, .bad "scr arity", [])

def stepCln (s : St) (a : List String) (out : List String) : St × Verdict × List String :=
  match a with
  | [now, mode, list] =>
    let allowed := allowedFn mode (hexNatList "," list)
    let nowN := nat! now
    let r4' := Ref.clean s.r4 nowN allowed
    let r6' := Ref.clean s.r6 nowN allowed
    let crossed (m m' : TMap) : Bool :=
      m.any (fun (h, pm) => pm.isLarge && ((m'.get h).map (fun p => !p.isLarge)).getD false)
    if s.cfg.http then
      match TMap.cleanHttp s.cfg.c s.m4 nowN allowed, TMap.cleanHttp s.cfg.c s.m6 nowN allowed with
      | .ok (m4', _), .ok (m6', _) =>
        let s' := { s with m4 := m4', m6 := m6', r4 := r4', r6 := r6' }
        let modelOut := [toString m4'.length, toString m6'.length]
        let refOut := [toString (Ref.numTorrents r4'), toString (Ref.numTorrents r6')]
        let notes := ["cln"] ++ (if m4'.length < s.m4.length ∨ m6'.length < s.m6.length then ["cln-dropped-torrent"] else [])
          ++ (if mode ≠ "off" then ["cln-acl"] else [])
        if refOut ≠ out then (s', .specfail s!"ref={refOut}", notes)
        else if modelOut ≠ out then (s', .mismatch s!"model={modelOut}", notes)
        else (s', .ok, notes)
      | _, _ => (s, .mismatch "model=panic", [])
    else
      match TMap.cleanUdp s.cfg.c s.m4 nowN allowed, TMap.cleanUdp s.cfg.c s.m6 nowN allowed with
      | .ok (m4', o4), .ok (m6', o6) =>
        let s' := { s with m4 := m4', m6 := m6', r4 := r4', r6 := r6' }
        let modelOut := [toString o4.torrents, toString o4.peers, toString o6.torrents, toString o6.peers]
        -- the reference totals are only claimed when no stored torrent is forbidden
        -- at clean time (C20 quantifier); with a forbidden torrent present the code
        -- counts its live peers once more before dropping it (documented order).
        let forb (r : RState) : Bool := (Ref.clean r nowN (fun _ => true)).any (fun e => !allowed e.hash)
        let refOut := [toString (Ref.numTorrents r4'), toString r4'.length,
                       toString (Ref.numTorrents r6'), toString r6'.length]
        let refApplies := !(forb s.r4 || forb s.r6)
        let notes := ["cln"] ++ (if crossed s.m4 m4' || crossed s.m6 m6' then ["large->small(clean)"] else [])
          ++ (if m4'.length < s.m4.length ∨ m6'.length < s.m6.length then ["cln-dropped-torrent"] else [])
          ++ (if mode ≠ "off" then ["cln-acl"] else [])
        let refTorrentsOk := refOut[0]! = out[0]! ∧ refOut[2]! = out[2]!
        if out.length < 4 then (s', .bad "cln out arity", notes)
        else if (refApplies ∧ refOut ≠ out.take 4) ∨ ¬ refTorrentsOk then (s', .specfail s!"ref={refOut}", notes)
        else if modelOut ≠ out.take 4 then (s', .mismatch s!"model={modelOut}", notes)
        else (s', .ok, notes)
      | _, _ => (s, .mismatch "model=panic", [])
  | _ => (s, .bad "cln arity", [])

def step (s : St) (ts : List String) : St × Verdict × List String :=
  let (a, out) := splitArrow ts
  match a with
  | ["cfg", kind, maxPeers, maxScrape] =>
    let http := kind = "http"
    ({ cfg := { http := http, c := if http then Generated.httpSmallCap else Generated.udpSmallCap,
                maxPeers := nat! maxPeers, maxScrape := nat! maxScrape } }, .skip, ["history"])
  | ["new"] => ({ cfg := s.cfg }, .skip, [])
  | "ann" :: fam :: rest => stepAnn s fam rest out
  | "scr" :: fam :: rest => stepScr s fam rest out
  | "cln" :: rest => stepCln s rest out
  | _ => (s, .bad "unknown op", [])

def main : IO Unit := do
  let t ← runLoop (← IO.getStdin) step ({} : St) {} 1
  IO.println t.summary

end StoreDrv
