import Driver.Store
import Driver.Time
import Driver.Codec13
import Driver.Validator
import Driver.Addr
import Driver.Acl
import Driver.WsJson
import Driver.HttpCodec
import Driver.WsStore
import Driver.Stats
import Driver.RawBytes
import Driver.Conc
import Driver.Supervise
import Driver.UdpNet
import Driver.UringSend
import Driver.UringRecv

def main (args : List String) : IO UInt32 := do
  match args with
  | ["store"] => StoreDrv.main; return 0
  | ["time"] => TimeDrv.main; return 0
  | ["codec13"] => Codec13Drv.main; return 0
  | ["validator"] => ValidatorDrv.main; return 0
  | ["addr"] => AddrDrv.main; return 0
  | ["acl"] => AclDrv.main; return 0
  | ["wsjson"] => WsJsonDrv.main; return 0
  | ["httpcodec"] => HttpCodecDrv.main; return 0
  | ["wsstore"] => WsStoreDrv.main; return 0
  | ["stats"] => StatsDrv.main; return 0
  | ["rawbytes"] => RawBytesDrv.main; return 0
  | ["conc"] => ConcDrv.main; return 0
  | ["supervise"] => SuperviseDrv.main; return 0
  | ["udpnet"] => UdpNetDrv.main; return 0
  | ["uringsend"] => UringSendDrv.main; return 0
  | ["uringrecv"] => UringRecvDrv.main; return 0
  | _ =>
    IO.eprintln "usage: driver <family>   (lines on stdin)"
    return 2
