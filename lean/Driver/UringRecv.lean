import Aquatic.Model.UringRecv
import Driver.Codec13

open Aquatic Aquatic.Bep15 Aquatic.UdpCodec Aquatic.UringRecv Drv

namespace UringRecvDrv

def ipText : Ip → String
  | .v4 a => natHex 8 a
  | .v6 hi lo => natHex 24 hi ++ natHex 8 lo

/-- C03 stated on the buffer directly: the source the kernel reported (port at bytes 2..4 of the name
field, address at 4..8 / 8..24), an IPv4-mapped one as the embedded IPv4 address -/
def specAddr (v6 : Bool) (buf : Bytes) : String :=
  let f := buf.drop 16
  let port := beNat ((f.drop 2).take 2)
  if !v6 then s!"{bytesHex ((f.drop 4).take 4)} {port}"
  else
    let a := (f.drop 8).take 16
    if a.take 12 = [0, 0, 0, 0, 0, 0, 0, 0, 0, 0, 0xff, 0xff] then s!"{bytesHex (a.drop 12)} {port}" else s!"{bytesHex a} {port}"

def step (_ : Unit) (ts : List String) : Unit × Verdict × List String :=
  let (a, out) := splitArrow ts
  match a with
  | ["ur", v6s, mx, h] =>
    let v6 := v6s = "1"
    let b := hexBytes h
    let impl := String.intercalate " " out
    let model := match parse v6 (nat! mx) b with
      | .ok (r, ip, port) => s!"ok {ipText ip} {port} {Codec13Drv.reqText r}"
      | .error .recvMsgParse => "err parse"
      | .error .truncated => "err trunc"
      | .error .invalidAddr => "err addr"
      | .error (.request (.sendable c t) ip port) => s!"err req {ipText ip} {port} sendable {c} {t}"
      | .error (.request .unsendable ip port) => s!"err req {ipText ip} {port} unsendable"
    let notes := ["case", if v6 then "v6-socket" else "v4-socket",
      if impl.startsWith "ok" then "accepted" else if impl.startsWith "err req" then "request-error" else String.intercalate "-" (out.take 2)]
      ++ (if v6 ∧ ((b.drop 24).take 12) = [0, 0, 0, 0, 0, 0, 0, 0, 0, 0, 0xff, 0xff] then ["mapped-source"] else [])
    -- the property's side: whenever a source address is handed on, it is the one the name field holds; port 0 never is
    let handed : Option String := match out with
      | "ok" :: ip :: port :: _ => some s!"{ip} {port}"
      | "err" :: "req" :: ip :: port :: _ => some s!"{ip} {port}"
      | _ => none
    match handed with
    | some s =>
      if s ≠ specAddr v6 b then ((), .specfail s!"source handed on is {s}, the kernel reported {specAddr v6 b}", notes)
      else if s.endsWith " 0" then ((), .specfail "a datagram from source port 0 was not ignored", notes)
      else if model ≠ impl then ((), .mismatch s!"model={model}", notes)
      else ((), .ok, notes)
    | none =>
      if impl.startsWith "PANIC" then ((), .specfail s!"recv helper panicked: {impl}", notes)
      else if model ≠ impl then ((), .mismatch s!"model={model}", notes)
      else ((), .ok, notes)
  | _ => ((), .bad "unknown op", [])

def main : IO Unit := do
  let t ← runLoop (← IO.getStdin) step () {} 1
  IO.println t.summary

end UringRecvDrv
