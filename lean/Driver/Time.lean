import Aquatic.Model.Time
import Driver.Util

open Aquatic Drv

namespace TimeDrv

/-- the property's own words: available until the clock reaches now + age (no u32 involved) -/
def specValid (now age t : Nat) : Bool := decide (t < now + age)

def step (_ : Unit) (ts : List String) : Unit × Verdict × List String :=
  let (a, out) := splitArrow ts
  match a, out with
  | ["vu", now, age, t], [v] =>
    let (now, age, t) := (nat! now, nat! age, nat! t)
    let model := validAt (validUntilNew now age) t
    let notes := ["case"] ++ (if now + age > u32Max then ["u32-overflow-region"] else [])
      ++ (if t + 1 = now + age then ["t=d-1"] else []) ++ (if t = now + age then ["t=d"] else [])
      ++ (if t = now + age + 1 then ["t=d+1"] else [])
    -- classification of the one recorded finding (known_findings.json F8b): the clock's last
    -- representable second with a deadline beyond u32::MAX
    let cls := if t = u32Max ∧ now + age > u32Max then " class=saturated-deadline-at-clock-u32max" else ""
    if (if specValid now age t then "1" else "0") ≠ v then ((), .specfail s!"spec={specValid now age t}{cls}", notes)
    else if (if model then "1" else "0") ≠ v then ((), .mismatch s!"model={model}", notes)
    else ((), .ok, notes)
  | _, _ => ((), .bad "arity", [])

def main : IO Unit := do
  let t ← runLoop (← IO.getStdin) step () {} 1
  IO.println t.summary

end TimeDrv
